"""C17 — no command returns bytes from outside the volume or surface being read.
Engine E2 (simulated disc, poison-tagged sectors) + E1 spot checks."""

from sim.orch import CheckBase, Outcome
from sim import dfswork, fluxwork
from sim.e2 import WorkerDied
from sim.models import dfsdisc as dd

DELTAS = [-2, -1, 0, 1, 2, 3, 'far']


class C17(CheckBase):
    id = 'C17'
    level = 'exploration'
    engine = 'E2+E1'
    builds = ['rel', 'simdisk']
    rule = ('cases: catalogues whose last-on-disc (or only) entry has start+length ending at boundary-2..+3 sectors and far '
            'beyond, where the boundary is the end of an Opus DDOS volume (next volume adjacent), of side 0/1 of a two-sided '
            'non-interleaved or interleaved image, of an MMB slot with a populated neighbour, or of the last track of a flux '
            'image; plus honest catalogues on physically short media (end of medium inside or before the file body). every '
            'sector is tagged with its image, side and number, so any byte from outside the volume/surface being read is '
            'recognisable. oracle: body output contains no foreign tag; an extent reaching beyond the boundary is an error '
            '(at attach time or when read); an extent inside is delivered exactly; file offsets read while delivering a body '
            'lie inside the volume/surface. distinct non-trivial = distinct (container, boundary kind, delta, length remainder '
            'class, medium-short?, verdict)')
    assumptions = [
        'cases the SUT identifies as a different variant/geometry than intended are counted and skipped',
        'an error may be reported when the image is attached (catalogue validation) or when the file is read; both satisfy the property',
    ]
    real_components = ['repo library code: dfs_volume.h/.cc, img_fileio.cc, dfs_catalog.cc, opus_cat.cc, img_*.cc (ASan+UBSan)', 'dfs binary under E1 for type --binary spot checks']
    stubbed_components = ['SimFileAccess (the medium, in memory)']

    def budget(self, tier):
        return 1500 if tier == 'quick' else 20000

    def time_cap(self, tier):
        return 600 if tier == 'quick' else 5400

    # ------------------------------------------------------------------ generation
    def edge_volume(self, rng, label, boundary, total_field, first_free, origin, cat_at, delta, maxfiles=31):
        """A volume with a few ordinary files low down and one edge file ending at boundary+delta."""
        k = rng.randint(1, 6)
        start = boundary - k
        if start > 1023 or start < first_free + 1:
            return None
        nsec = k + (delta if delta != 'far' else rng.randint(20, 700))
        if nsec <= 0:
            nsec = 1
            start = boundary + delta - 1
            if start < first_free + 1:
                return None
        rem = rng.weighted([(2, 0), (2, rng.randint(1, 255)), (1, 1), (1, 255)])
        length = nsec * 256 - ((256 - rem) % 256 if rem else 0)
        if length > 0x3FFFF:
            length = 0x3FFFF
        files = [dd.FileEnt(ord('$'), b'EDGE', False, 0, 0, length, start)]
        # ordinary files below, descending start
        pos = min(start, boundary) - 1
        names = dd.gen_names(rng, rng.randint(0, 4))
        for d, name in names:
            n = rng.randint(1, 3)
            st = pos - n - rng.randint(0, 3)
            if st < first_free:
                break
            files.append(dd.FileEnt(d, name if name != b'EDGE' else b'EDGX', False, 0x1900, 0x8023, n * 256 - rng.choice([0, 7]), st))
            pos = st - 1
        return dd.Volume(label, b'EDGEVOL', 1, 0, total_field, files, origin, cat_at)

    def gen_case(self, rng, tier, index):
        kind = rng.weighted([(5, 'opus'), (3, 'ssd2'), (3, 'dsd'), (3, 'mmb'), (2, 'ssd1'), (2, 'flux'), (3, 'overclaim')])
        delta = rng.choice(DELTAS)
        short = rng.chance(0.2)
        for _ in range(40):
            case = self._gen(rng, kind, delta)
            if case:
                case['delta'] = delta
                case['short'] = short
                case['short_by'] = rng.choice([1, 255, 256, 257, 300, 512, 1000])
                case['spot'] = rng.below(5) == 0
                return case
            kind = rng.choice(['opus', 'ssd2', 'dsd', 'mmb', 'ssd1'])
        raise RuntimeError('cannot generate C17 case')

    def _gen(self, rng, kind, delta):
        if kind == 'overclaim':
            # a catalogue that claims more sectors than the surface it sits on has (total-sectors field, or the
            # HDFS flag bit that adds 512), beside a populated neighbour: whole-surface commands must stop at the
            # end of the surface
            cont = rng.choice(['mmb', 'ssd2', 'dsd'])
            geom = (80, 10) if cont == 'mmb' else rng.choice([(40, 10), (80, 10), (35, 10)])
            n = geom[0] * geom[1]
            how = rng.choice(['total', 'hdfs'])
            surfaces = []
            nsurf = 3 if cont == 'mmb' else 2
            ts = rng.below(nsurf - 1) if cont != 'dsd' else rng.below(2)
            for i in range(nsurf):
                s = dd.gen_surface(rng, variant='acorn', geom=geom, img_id=6, side=i)
                if i == ts:
                    v = s.volumes[0]
                    if how == 'total':
                        v.total = min(1023, n + rng.choice([1, 2, 12, 100, 223]))
                    else:
                        v.total = rng.choice([300, 400, n - 512 + 12 if n > 512 else 300])
                        v.title = (v.title or b'T') + b''
                        if not v.title:
                            v.title = b'T'
                        s.post = {'262': [255, 8], '0': [255, 128]}
                surfaces.append(s.to_json())
            if cont == 'mmb':
                base = rng.below(5)
                slots = {str(base + i): [0x0F, i] for i in range(3)}
                return {'kind': kind, 'image': {'ext': 'mmb', 'surfaces': surfaces, 'slots': slots}, 'target': [ts, 0], 'drive': (base + ts) * 2, 'how': how}
            ext = {'ssd2': 'ssd', 'dsd': 'dsd'}[cont]
            if not dd.geometry_is_identifiable(dd.Surface.from_json(surfaces[0]), ext) and how == 'total':
                pass
            return {'kind': kind, 'image': {'ext': ext, 'surfaces': surfaces}, 'target': [ts, 0], 'how': how}
        if kind == 'opus':
            tracks = rng.choice([40, 80, 35])
            nvol = rng.randint(1, 6)
            # keep volumes small enough that boundary-k fits in the 10-bit start sector
            cuts = sorted(rng.sample(range(2, tracks), min(nvol - 1, tracks - 2))) if nvol > 1 else []
            if len(cuts) >= 1 and rng.chance(0.5):
                # some volume of exactly one track (the legal minimum)
                k = rng.below(len(cuts))
                nxt = cuts[k] + 1
                if nxt < tracks and nxt not in cuts:
                    if k + 1 < len(cuts):
                        cuts[k + 1] = nxt
                    else:
                        cuts.append(nxt)
                    cuts = sorted(set(cuts))[:7]
            starts = [1] + cuts
            ends = cuts + [tracks]
            tv = rng.below(len(starts))
            if len(starts) < 8 and rng.chance(0.25):
                # a degenerate (but representable) volume table: the next letter starts on the same track,
                # so by the "a volume ends where the next one starts" rule the target volume is empty
                starts.insert(tv + 1, starts[tv])
                ends.insert(tv + 1, ends[tv])
                degenerate = True
            else:
                degenerate = False
            if len(starts) > 1 and not degenerate and rng.chance(0.4):
                # volume letters need not be laid out in alphabetical order: A may sit above B.  A volume ends where
                # the next one *on the disc* starts, whatever its letter
                regions = list(zip(starts, ends))
                rng.shuffle(regions)
                starts = [a for a, b in regions]
                ends = [b for a, b in regions]
                tv = rng.below(len(starts))
            vols = []
            for i in range(len(starts)):
                size = (ends[i] - starts[i]) * 18
                total = min(size, 1023)
                if i == tv:
                    v = self.edge_volume(rng, 'ABCDEFGH'[i], size, total, 0, starts[i] * 18, 2 * i, delta)
                    if v is None:
                        return None
                else:
                    v = dd.gen_volume(rng, 'ABCDEFGH'[i], total, 0, 31, origin=starts[i] * 18, cat_at=2 * i, nfiles=rng.randint(0, 3))
                vols.append(v)
            if rng.chance(0.3):
                # the Opus disc is side 1 of a two-sided image whose side 0 carries another file system: each side
                # is a file system of its own, with its own bounds
                s = dd.Surface('opus', tracks, 18, vols, 6, 1, rng.below(65536))
                s0 = dd.gen_surface(rng, variant=rng.choice(['acorn', 'acorn', 'watford']), geom=(tracks, 18), img_id=6, side=0)
                return {'kind': kind, 'image': {'ext': rng.choice(['ddd', 'sdd']), 'surfaces': [s0.to_json(), s.to_json()]}, 'target': [1, tv]}
            s = dd.Surface('opus', tracks, 18, vols, 6, 0, rng.below(65536))
            return {'kind': kind, 'image': {'ext': 'sdd', 'surfaces': [s.to_json()]}, 'target': [0, tv]}
        if kind in ('ssd1', 'ssd2', 'dsd'):
            geom = rng.choice([(40, 10), (80, 10), (35, 10), (40, 18), (35, 18), (40, 16)])
            n = geom[0] * geom[1]
            nsides = 1 if kind == 'ssd1' else 2
            ts = rng.below(nsides)
            surfaces = []
            for side in range(nsides):
                if side == ts:
                    v = self.edge_volume(rng, None, n, min(n, 1023), 2, 0, 0, delta)
                    if v is None:
                        return None
                    s = dd.Surface('acorn', geom[0], geom[1], [v], 6, side, rng.below(65536))
                else:
                    s = dd.gen_surface(rng, variant='acorn', geom=geom, img_id=6, side=side)
                surfaces.append(s)
            ext = ('ssd' if geom[1] == 10 else 'sdd') if kind != 'dsd' else ('dsd' if geom[1] == 10 else 'ddd')
            if not dd.geometry_is_identifiable(surfaces[0], ext):
                return None
            return {'kind': kind, 'image': {'ext': ext, 'surfaces': [s.to_json() for s in surfaces]}, 'target': [ts, 0]}
        if kind == 'mmb':
            base = rng.below(6)
            slots = {}
            surfaces = []
            tslot = rng.below(3)
            for i in range(3):
                if i == tslot:
                    v = self.edge_volume(rng, None, 800, 800, 2, 0, 0, delta)
                    if v is None:
                        return None
                    s = dd.Surface('acorn', 80, 10, [v], 6, i, rng.below(65536))
                else:
                    s = dd.gen_surface(rng, variant='acorn', geom=(80, 10), img_id=6, side=i)
                surfaces.append(s.to_json())
                slots[str(base + i)] = [0x0F, i]
            return {'kind': kind, 'image': {'ext': 'mmb', 'surfaces': surfaces, 'slots': slots}, 'target': [tslot, 0], 'drive': (base + tslot) * 2}
        # flux: a small single-sided image
        fc = fluxwork.gen_fluxcase(rng, small=True, sides=1)
        n = fc['tracks'] * fc['spt']
        v = self.edge_volume(rng, None, n, min(n, 1023), 2, 0, 0, delta)
        if v is None:
            return None
        s = dd.Surface('acorn', fc['tracks'], fc['spt'], [v], 6, 0, rng.below(65536))
        return {'kind': kind, 'image': {'ext': 'hfe' if fc['container'] != 'mfm' else 'mfm', 'surfaces': [s.to_json()], 'flux': fc}, 'target': [0, 0]}

    # ------------------------------------------------------------------ execution
    def build(self, case):
        image = case['image']
        if 'flux' in image:
            surfs = [dd.Surface.from_json(s) for s in image['surfaces']]
            data, _ = fluxwork.build(image['flux'], [s.render() for s in surfs])
            return data
        return dfswork.render_image(image)

    def run_case(self, case, ctx):
        out = Outcome()
        try:
            self._run(case, ctx, out)
        except WorkerDied as wd:
            out.violate('C17.crash', 'library code crashed (exit %r): %s' % (wd.code, wd.stderr[-300:].decode('latin-1')), {'kind': case['kind'], 'what': 'crash'}, case)
        return out

    def run_overclaim(self, case, ctx, out):
        """extract-unused (and the other whole-surface commands) on a surface whose catalogue over-claims."""
        image = case['image']
        ext = image['ext']
        data = dfswork.render_image(image)
        si = case['target'][0]
        surf = dd.Surface.from_json(image['surfaces'][si])
        drive = case.get('drive')
        if drive is None:
            drive = {0: 0, 1: 2}[si]
        sb = ctx.sb
        name = 'img.' + ext
        sb.reset({name: data, 'out': None})
        exe = ctx.exe('rel', 'dfs')
        r = ctx.sk.run(sb, exe, ['dfs', '--file', name, '--show-config', '--drive', str(drive), 'extract-unused', 'out'])
        out.add_run(r)
        # by the documented probing rules an over-claiming total can simply mean a bigger geometry (a 40-track
        # two-sided file read as one 80-track side): then the surface really is that big and nothing is foreign
        import re
        m = re.search(r'^Drive +%d: occupied, [a-z]+ density, 1 side, (\d+) tracks, (\d+) sectors per track' % drive, r['stderr'].decode('latin-1'), re.M)
        if not m or int(m.group(1)) * int(m.group(2)) != surf.nsectors:
            out.skip('identified-differently')
            return
        out.fault('overclaim-' + case['how'], True)
        desc = {'kind': 'overclaim', 'how': case['how'], 'ext': ext}
        what = '%s image, surface %d (%d sectors) whose catalogue claims %s: dfs --drive %d extract-unused' % (
            ext, si, surf.nsectors, 'more sectors through the total-sectors field' if case['how'] == 'total' else 'more sectors through the HDFS flag bits', drive)
        import os
        foreign = []
        total = 0
        outdir = os.path.join(sb.root, 'out')
        for fn in sorted(os.listdir(outdir)):
            with open(os.path.join(outdir, fn), 'rb') as fh:
                blob = fh.read()
            total += len(blob)
            for (img, side, lba, k) in dd.parse_tags(blob):
                if img == surf.img_id and (side != surf.side or lba >= surf.nsectors):
                    foreign.append((fn, side, lba))
                    break
        out.sig('overclaim', ext, case['how'], r.exit_class(), bool(foreign), r['log_hash'])
        out.probe('overclaim-bytes-extracted', total)
        if foreign:
            out.violate('C17.a', '%s wrote bytes tagged %s, which lie outside that surface' % (what, foreign[:2]), dict(desc, what='extract-unused-foreign'), case)
        r2 = ctx.sk.run(sb, exe, ['dfs', '--file', name, 'dump-sector', str(drive), str(surf.tracks - 1), str(surf.spt - 1)])
        out.add_run(r2)

    def _run(self, case, ctx, out):
        if case['kind'] == 'overclaim':
            return self.run_overclaim(case, ctx, out)
        image = case['image']
        ext = image['ext']
        data = self.build(case)
        si, vi = case['target']
        surf = dd.Surface.from_json(image['surfaces'][si])
        vol = surf.volumes[vi]
        edge = vol.files[0]
        # the boundary in volume-relative sectors
        if surf.variant == 'opus':
            nxt = [v.origin for v in surf.volumes if v.origin > vol.origin]
            boundary = (min(nxt) if nxt else surf.nsectors) - vol.origin
        else:
            boundary = surf.nsectors
        end = edge.start + edge.nsectors() if edge.length else edge.start
        beyond = edge.length > 0 and end > boundary
        # two volume letters on the same start track: whether the first of them is empty or runs to the next
        # *different* start is a matter of reading the DDOS manual; only what both readings agree on is judged
        ambiguous = surf.variant == 'opus' and any(v is not vol and v.origin == vol.origin for v in surf.volumes)
        drive = case.get('drive')
        if drive is None:
            drive = {0: 0, 1: 2}[si] if ext != 'mmb' else 0
        eof_at = -1
        rendered = surf.render()
        body_true = rendered[(vol.origin + edge.start) * 256:(vol.origin + edge.start) * 256 + edge.length]
        if case['short'] and 'flux' not in image and not beyond:
            # honest catalogue, medium physically short: cut the file inside/before the edge file's body
            # (the file offset of the body's last byte, via the documented layout)
            last_lba = vol.origin + edge.start + max(0, edge.nsectors() - 1)
            off = self.file_offset(image, si, last_lba, case)
            eof_at = max(0, off + 256 - case['short_by'])
        e2 = ctx.e2
        j = e2.open(ext, data, eof_at=eof_at)
        out.runs += 1
        out.steps += 1
        desc = {'kind': case['kind'], 'delta': str(case['delta']), 'short': eof_at >= 0}
        what = '%s %s: entry $.EDGE start %d, %d bytes (%d sectors) in a %s of %d sectors (extent ends at boundary%+d)%s' % (
            case['kind'], ext, edge.start, edge.length, edge.nsectors(), 'volume ' + vol.label if vol.label else 'surface', boundary, end - boundary,
            '' if eof_at < 0 else ', medium ends at byte %d' % eof_at)
        remclass = 'full' if edge.length % 256 == 0 else 'partial'
        if eof_at >= 0:
            out.fault('short-medium', True)
        out.fault('boundary%s' % ('+far' if case['delta'] == 'far' else '%+d' % case['delta']), True)
        if not j['ok']:
            out.probe('rejected-at-attach')
            out.sig(case['kind'], case['delta'], remclass, eof_at >= 0, 'rejected-at-attach')
            if not beyond and eof_at < 0 and not ambiguous:
                out.violate('C17.c', '%s: the image was rejected although every extent lies inside: %s' % (what, j['error'][:160]), dict(desc, what='rejected'), case)
            return
        d = [x for x in j['drives'] if x['n'] == drive]
        if not d or d[0]['format'] is None:
            out.probe('no-filesystem-recognised')
            out.sig(case['kind'], case['delta'], remclass, eof_at >= 0, 'no-filesystem')
            if not beyond and eof_at < 0 and not ambiguous:
                out.violate('C17.c', '%s: no file system recognised on drive %d although every extent lies inside' % (what, drive), dict(desc, what='no-fs'), case)
            return
        want_fmt = {'opus': 'Opus DDOS', 'acorn': 'Acorn DFS', 'watford': 'Watford DFS'}[surf.variant]
        g = d[0]['geometry']
        if d[0]['format'] != want_fmt or (g[0], g[2]) != (surf.tracks, surf.spt):
            if beyond or ambiguous or eof_at >= 0 or surf.variant != 'opus':
                # an out-of-bounds entry can legitimately stop the disc from being recognised as intended
                out.skip('identified-differently')
                return
            # a well-formed Opus DDOS disc taken for something else: whatever is now delivered for volume A's
            # file comes from outside volume A
            out.probe('well-formed-opus-identified-as-' + str(d[0]['format']))
            label_override = True
        else:
            label_override = False
        # on an Opus DDOS disc the bare drive number means volume A
        label = vol.label if not (vol.label == 'A' and case.get('short_by', 0) % 2) else None
        if label_override:
            label = None
        m = e2.mount(drive, label)
        if not m['ok']:
            out.probe('mount-failed')
            out.sig(case['kind'], case['delta'], remclass, eof_at >= 0, 'mount-failed')
            if not beyond and eof_at < 0 and not ambiguous:
                out.violate('C17.c', '%s: mounting failed although every extent lies inside: %s' % (what, m['error'][:160]), dict(desc, what='mount'), case)
            return
        idx = [i for i, e in enumerate(m['entries']) if e['name'] == 'EDGE']
        if not idx:
            out.skip('edge-entry-not-listed')
            return
        b = e2.body(drive, label, idx[0])
        out.steps += 1
        verdict = 'error' if not b['ok'] else 'delivered'
        # C17.a: foreign bytes
        if b['ok'] or b['data']:
            foreign = self.foreign(b['data'], surf, vol, boundary)
            if foreign:
                verdict = 'foreign-bytes'
                out.violate('C17.a', '%s: the file body contains bytes tagged %s, which lie outside the %s being read' % (
                    what, foreign, 'volume' if vol.label else 'surface'), dict(desc, what='foreign'), case)
        if beyond:
            if b['ok']:
                if verdict != 'foreign-bytes':
                    verdict = 'no-error'
                out.violate('C17.b', '%s: the extent reaches beyond the boundary but no error was reported (%d bytes delivered)' % (what, len(b['data'])),
                            dict(desc, what='no-error'), case)
        elif eof_at >= 0:
            if b['ok'] and b['data'] != body_true:
                verdict = 'wrong-data-short-medium'
                out.violate('C17.a', '%s: the medium is physically short, yet a body was delivered that differs from what is recorded' % what, dict(desc, what='short-wrong'), case)
        elif ambiguous:
            out.probe('degenerate-volume-table(inside-by-one-reading)')
        else:
            if not b['ok']:
                verdict = 'spurious-error'
                out.violate('C17.c', '%s: every extent lies inside, yet reading failed: %s' % (what, b['error'][:120]), dict(desc, what='spurious-error'), case)
            elif b['data'] != body_true:
                verdict = 'wrong-data'
                out.violate('C17.c', '%s: every extent lies inside, yet the delivered body differs from what is recorded' % what, dict(desc, what='wrong-data'), case)
        # C17.d: file offsets touched while delivering the body
        if 'flux' not in image:
            lo, hi = self.region(image, si, vol, boundary, case)
            for pos, ln, got in b['file_reads']:
                if got > 0 and (pos < lo or pos + got > hi) and not self.in_catalogue(image, si, pos, case):
                    if not b['ok']:
                        out.probe('failed-read-touched-outside')
                        continue
                    out.violate('C17.d', '%s: delivering the body read file bytes [%d,%d), outside the region [%d,%d) of the %s' % (
                        what, pos, pos + got, lo, hi, 'volume' if vol.label else 'surface'), dict(desc, what='offset'), case)
                    break
        out.sig(case['kind'], case['delta'], remclass, eof_at >= 0, verdict)
        if ambiguous:
            out.probe('degenerate-volume-table')
        if case.get('spot') and 'flux' not in image and eof_at < 0 and not ambiguous:
            self.spot(ctx, out, case, image, data, surf, vol, drive, beyond, body_true, boundary, what, desc)

    def foreign(self, body, surf, vol, boundary):
        lo = vol.origin
        hi = vol.origin + boundary
        bad = []
        for (img, side, lba, k) in dd.parse_tags(body):
            if img != surf.img_id:
                continue      # not one of our tags (random filler happened to start with E7)
            if side != surf.side or not (lo <= lba < hi):
                bad.append((img, side, lba))
                if len(bad) >= 2:
                    break
        return bad

    def file_offset(self, image, si, lba, case):
        ext = image['ext']
        s = dd.Surface.from_json(image['surfaces'][si])
        if ext in ('ssd', 'sdd'):
            return si * s.nsectors * 256 + lba * 256
        if ext in ('dsd', 'ddd'):
            return ((lba // s.spt) * 2 * s.spt + si * s.spt + lba % s.spt) * 256
        slot = case['drive'] // 2
        return 8192 + slot * 204800 + lba * 256

    def region(self, image, si, vol, boundary, case):
        ext = image['ext']
        s = dd.Surface.from_json(image['surfaces'][si])
        if ext in ('ssd', 'sdd'):
            base = si * s.nsectors * 256
            return base + vol.origin * 256, base + (vol.origin + boundary) * 256
        if ext in ('dsd', 'ddd'):
            # interleaved: the surface is not contiguous; use the whole file and rely on tags for C17.a
            return 0, 1 << 60
        slot = case['drive'] // 2
        base = 8192 + slot * 204800
        return base, base + 204800

    def in_catalogue(self, image, si, pos, case):
        """Mounting the volume reads the catalogue (and, for Opus DDOS, sector 16 of track 0):
        metadata of the file system being read, not file bodies."""
        ext = image['ext']
        s = dd.Surface.from_json(image['surfaces'][si])
        meta = 18 * 256 if s.variant == 'opus' else 4 * 256
        if ext in ('ssd', 'sdd'):
            base = si * s.nsectors * 256
        elif ext == 'mmb':
            base = 8192 + (case['drive'] // 2) * 204800
        else:
            return True
        return base <= pos < base + meta

    def spot(self, ctx, out, case, image, data, surf, vol, drive, beyond, body_true, boundary, what, desc):
        sb = ctx.sb
        name = 'img.' + image['ext']
        sb.reset({name: data})
        lab = vol.label or ''
        if lab == 'A' and case.get('short_by', 0) % 2:
            lab = ''
        argv = ['dfs', '--file', name, 'type', '--binary', ':%d%s.$.EDGE' % (drive, lab)]
        r = ctx.sk.run(sb, ctx.exe('rel', 'dfs'), argv)
        out.add_run(r)
        out.probe('e1-type-binary-spot-checks')
        foreign = self.foreign(r['stdout'], surf, vol, boundary)
        if foreign:
            out.violate('C17.a', '%s: dfs type --binary printed bytes tagged %s from outside the %s' % (what, foreign, 'volume' if vol.label else 'surface'),
                        dict(desc, what='spot-foreign'), case)
        if beyond and r.code == 0:
            out.violate('C17.b', '%s: dfs type --binary exited 0 although the extent reaches beyond the boundary' % what, dict(desc, what='spot-no-error'), case)
        if not beyond and (r.code != 0 or r['stdout'] != body_true):
            out.violate('C17.c', '%s: dfs type --binary gave %s / %s output for an extent inside the boundary' % (what, r.exit_class(), 'right' if r['stdout'] == body_true else 'wrong'),
                        dict(desc, what='spot-inside'), case)

    def group_key(self, v):
        d = v['desc']
        return (d.get('kind'), d.get('what'), d.get('delta'))

    def shrink(self, case, clause):
        if case.get('spot'):
            yield dict(case, spot=False)
        if case.get('short'):
            yield dict(case, short=False)
        image = case['image']
        si, vi = case['target']
        for sj, surf in enumerate(image['surfaces']):
            for vj, v in enumerate(surf['volumes']):
                keep = 1 if (sj == si and vj == vi) else 0
                if len(v['files']) > keep:
                    v2 = dict(v, files=v['files'][:keep])
                    s2 = dict(surf, volumes=surf['volumes'][:vj] + [v2] + surf['volumes'][vj + 1:])
                    yield dict(case, image=dict(image, surfaces=image['surfaces'][:sj] + [s2] + image['surfaces'][sj + 1:]))


CHECK = C17()
