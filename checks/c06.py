"""C06 — track decoding never returns damaged or misaddressed sector data.
Engine E2: stored-bit damage (flips, bursts, slips, drop-outs, truncation,
radial damage) on valid flux tracks and images."""

from sim.orch import CheckBase, Outcome
from sim import fluxwork
from sim.e2 import WorkerDied
from sim.models import flux, dfsdisc as dd
from sim.prng import Rng

REGIONS = ['sync', 'idmark', 'id', 'idcrc', 'gap2', 'datamark', 'data', 'datacrc', 'gap3']


def gen_damage(rng, spt, cls, nrec=None):
    """A list of damage ops for one track.  cls 'G': detection guaranteed (one or two flipped
    cells, or one burst of at most 16 data bits = 32 cells, confined to one field of one sector);
    cls 'S': anything."""
    ops = []
    rec = rng.below(spt)
    if cls == 'G':
        region = rng.weighted([(3, 'id'), (2, 'idcrc'), (5, 'data'), (3, 'datacrc'), (2, 'idmark'), (2, 'datamark')])
        if rng.chance(0.6):
            n = rng.randint(1, 2)
            off = rng.below(100000)
            for i in range(n):
                ops.append({'k': 'flip', 'region': region, 'rec': rec, 'off': off + i * rng.randint(1, 9)})
        else:
            ops.append({'k': 'burst', 'region': region, 'rec': rec, 'off': rng.below(100000), 'len': rng.randint(2, 32), 'seed': rng.below(1 << 30)})
        return ops
    for _ in range(rng.weighted([(5, 1), (3, 2), (2, rng.randint(3, 6))])):
        k = rng.weighted([(3, 'flip'), (2, 'burst'), (4, 'slip'), (5, 'drop'), (1, 'trunc')])
        region = rng.choice(REGIONS)
        op = {'k': k, 'region': region, 'rec': rng.below(spt) if rng.chance(0.7) else rec, 'off': rng.below(100000)}
        if k == 'burst':
            op['len'] = rng.choice([8, 16, 64, 200, 1000])
            op['seed'] = rng.below(1 << 30)
        elif k == 'slip':
            op['ins'] = rng.below(2)
            op['v'] = rng.below(2)
        elif k == 'drop':
            op['len'] = rng.choice([4, 16, 48, 100, 300, 1000, 5000, 4200, 4700, 5400, 8400, 9000, 13000])
            op['v'] = rng.weighted([(3, 0), (1, 1)])
            if op['len'] >= 4000 and rng.chance(0.6):
                # a long dead stretch that begins right behind a good header: the next data field the decoder meets is
                # one, two or three sectors further on
                op['region'] = rng.choice(['gap2', 'gap2', 'datamark'])
                op['off'] = rng.choice([0, 0, 100, 400])
        ops.append(op)
    return ops


class C06(CheckBase):
    id = 'C06'
    level = 'exploration'
    engine = 'E2'
    builds = ['simdisk']
    rule = ('track level: seeded valid FM/MFM tracks (gap/sync lengths across legal ranges, any physical order, payloads '
            'unique per sector) with damage aimed by region (sync, ID mark, ID, ID CRC, gap2, data mark, data, data CRC, gap3): '
            'class G = one or two flipped cells or one burst <= 32 cells inside one field (CRC-16/clock checking must detect it); '
            'class S = slips (cell inserted/deleted), drop-outs (runs forced to 0/1), bursts, truncation, several at once. '
            'image level: whole HFE v1/v3 and HxC-MFM images with the same damage on one track, several tracks, or the same '
            'sector of every track (radial). oracle: every yielded sector has a valid data CRC over mark+data, an address '
            'recorded on that track, and the payload recorded under that address; a payload recorded under another address '
            'is a violation in every class; image reads return the payload recorded for exactly that (track, sector) or '
            'nothing. distinct non-trivial = distinct (level, encoding/container, class, damaged regions, damage kinds, '
            'number of sectors returned, verdict)')
    assumptions = [
        'class S damage can in principle forge a CRC-valid sector with probability 2^-16 per attempt: a payload matching nothing recorded is tallied as possible-collision, not judged; misaddressing (a recorded payload under the wrong address) is always judged',
        'the image-level expectation for lba uses the geometry the image file itself reports (track = lba / sectors-per-track)',
    ]
    real_components = ['repo library code: track_fm.cc, track_mfm.cc, track.cc, crc16.cc, img_hfe.cc, img_hxcmfm.cc (ASan+UBSan)']
    stubbed_components = ['SimFileAccess (the medium, in memory)', 'BitStream input bytes for track-level cases']

    def budget(self, tier):
        return 2000 if tier == 'quick' else 40000

    def time_cap(self, tier):
        return 700 if tier == 'quick' else 6000

    def det_sample(self, tier, n):
        return min(n, 24)

    # ------------------------------------------------------------------ generation
    def gen_case(self, rng, tier, index):
        level = rng.weighted([(5, 'track'), (1, 'image')])
        if level == 'track':
            enc = rng.choice(['fm', 'mfm'])
            spt = 10 if enc == 'fm' else rng.choice([16, 18])
            cls = rng.weighted([(4, 'G'), (6, 'S')])
            return {'level': 'track', 'enc': enc, 'spt': spt, 'cyl': rng.below(80), 'head': rng.below(2), 'seed': rng.below(1 << 30),
                    'class': cls, 'ntracks': 12, 'damage_seed': rng.below(1 << 30), 'altmarks': rng.chance(0.3), 'forge': rng.chance(0.2)}
        mode = rng.weighted([(3, 'one-track'), (2, 'few-tracks'), (4, 'radial'), (4, 'reid'), (4, 'catkill')])
        if mode == 'catkill':
            fc = fluxwork.gen_fluxcase(rng, small=True, sides=rng.weighted([(1, 1), (4, 2)]), container=rng.weighted([(2, 'mfm'), (1, 'hfe1'), (1, 'hfe3')]))
        else:
            fc = fluxwork.gen_fluxcase(rng, small=True, sides=rng.weighted([(4, 1), (1, 2)]))
        cls = rng.weighted([(3, 'G'), (7, 'S')])
        side = rng.below(fc['sides'])
        dmg = {}
        if mode == 'reid':
            # adversarial damage: the flips that turn one sector's ID field into another, CRC included.  The sector
            # then claims an address that is not its own (a duplicate of another sector, or one outside the track)
            fc['order'] = rng.choice(['skew', 'random', 'interleave2', 'seq'])
            reid = {}
            for _ in range(rng.weighted([(4, 1), (2, 2), (1, 4)])):
                t = rng.below(fc['tracks'])
                r = rng.weighted([(3, fc['spt'] - 1), (3, 1), (2, rng.below(fc['spt'])), (1, 0)])
                how = rng.weighted([(5, 'dup-record'), (2, 'other-track'), (1, 'other-head'), (2, 'record-out-of-range'), (1, 'size-code')])
                if how == 'dup-record':
                    newid = [t, side, rng.weighted([(3, 0), (2, rng.below(fc['spt']))]), 1]
                elif how == 'other-track':
                    newid = [(t + rng.choice([1, 2, 40])) % 256, side, r, 1]
                elif how == 'other-head':
                    newid = [t, 1 - side, r, 1]
                elif how == 'record-out-of-range':
                    newid = [t, side, rng.choice([fc['spt'], fc['spt'] + 1, 0x7F, 0xFF]), 1]
                else:
                    newid = [t, side, r, rng.choice([0, 2, 3, 7])]
                if newid[:3] != [t, side, r] or newid[3] != 1:
                    reid['%d:%d:%d' % (side, t, r)] = newid
            fc['reid'] = reid
        elif mode == 'catkill':
            # one side loses a catalogue sector (or its ID): that side can no longer be recognised as a file system,
            # which must not change what the drive numbers of the image refer to
            side = rng.weighted([(3, 0), (1, fc['sides'] - 1)])
            rec = rng.below(2)
            region = rng.weighted([(3, 'data'), (1, 'datacrc'), (1, 'idmark'), (1, 'datamark')])
            dmg['%d:0' % side] = [{'k': rng.choice(['flip', 'drop']), 'region': region, 'rec': rec, 'off': rng.below(100000), 'len': 16, 'v': 0}]
        elif mode == 'radial':
            # the same damage to the same sector on every track (a scratch)
            rec = rng.weighted([(3, fc['spt'] - 1), (2, rng.below(fc['spt'])), (1, 0)])
            kind = rng.weighted([(3, 'kill-id'), (3, 'kill-datamark'), (2, 'kill-data'), (2, 'kill-sync')])
            region = {'kill-id': 'idmark', 'kill-datamark': 'datamark', 'kill-data': 'data', 'kill-sync': 'sync'}[kind]
            op = {'k': 'drop', 'region': region, 'rec': rec, 'off': 0, 'len': 16 if region != 'sync' else 400, 'v': 0}
            for t in range(fc['tracks']):
                dmg['%d:%d' % (side, t)] = [op]
        else:
            tracks = [rng.below(fc['tracks'])] if mode == 'one-track' else rng.sample(range(fc['tracks']), rng.randint(2, 5))
            for t in tracks:
                dmg['%d:%d' % (side, t)] = gen_damage(rng, fc['spt'], cls)
        surfaces = [dd.gen_surface(rng, variant='acorn', geom=(fc['tracks'], fc['spt']), img_id=4, side=s).to_json() for s in range(fc['sides'])]
        return {'level': 'image', 'flux': fc, 'surfaces': surfaces, 'damage': dmg, 'mode': mode, 'class': cls if mode not in ('radial', 'reid', 'catkill') else 'S'}

    # ------------------------------------------------------------------ execution
    def run_case(self, case, ctx):
        out = Outcome()
        try:
            if case['level'] == 'track':
                self.run_tracks(case, ctx, out)
            else:
                self.run_image(case, ctx, out)
        except WorkerDied as wd:
            out.violate('C06.crash', 'library code crashed or hung while decoding damaged flux (exit %r): %s' % (wd.code, wd.stderr[-300:].decode('latin-1')),
                        {'level': case['level'], 'what': 'crash' if wd.code != 'timeout' else 'hang'}, case)
        return out

    def run_tracks(self, case, ctx, out):
        """One case = several damaged variants of one valid track (fresh damage per variant)."""
        enc, spt, cyl, head = case['enc'], case['spt'], case['cyl'], case['head']
        rng = Rng.derive(case['seed'], 'track')
        params = flux.gen_params(rng, enc, spt)
        order = flux.sector_order(rng, spt)
        secs = []
        for r in order:
            payload = bytes([cyl, head, r]) + rng.bytes(253)
            # some sectors are legally recorded with another data mark (deleted data F8, or F9/FA):
            # the decoders yield data sectors only, so these must never be returned
            mark = 0xFB if not case.get('altmarks') or rng.chance(0.75) else rng.choice([0xF8, 0xF8, 0xF9, 0xFA, -1, -1])     # -1: ID field with no data field behind it
            secs.append((r, payload, mark))
        forged = {}
        if case.get('forge'):
            # one or two sectors carry a checksum computed the wrong way (over the wrong span, wrong initial value,
            # swapped, ...): only the real CRC-16 makes a field good
            frng = Rng.derive(case['seed'], 'forge')
            for _ in range(frng.randint(1, 2)):
                i = frng.below(len(secs))
                r, payload, mark = secs[i][:3]
                if mark == -1:
                    continue      # no data field to carry a checksum
                alts = flux.wrong_crcs(enc, mark, payload)
                how = frng.choice(sorted(alts))
                secs[i] = (r, payload, mark, None, alts[how])
                forged[r] = how
                out.probe('forged-crc:' + how)
        cells, regions = flux.encode_track(enc, cyl, head, secs, params)
        recorded = {t[0]: t[1] for t in secs if t[2] == 0xFB and t[0] not in forged}
        by_payload = {t[1]: t[0] for t in secs}
        nonfb = sum(1 for t in secs if t[2] != 0xFB)
        nodata = set(t[0] for t in secs if t[2] == -1)
        if nonfb:
            out.probe('tracks-with-non-FB-data-marks')
        drng = Rng.derive(case['damage_seed'], 'damage')
        variants = case.get('variants')
        n = len(variants) if variants is not None else case['ntracks']
        for i in range(n):
            ops = variants[i] if variants is not None else ([] if (i == 0 and case.get('altmarks')) else gen_damage(drng, spt, case['class']))
            dcells = fluxwork.apply_damage(cells, regions, ops)
            data, first, stride = flux.simdisk_bitstream(enc, dcells)
            j = ctx.e2.decode(enc, data, first, stride)
            out.runs += 1
            out.steps += 1
            out.fault(case['class'] + ':' + '+'.join(sorted(set(o['k'] for o in ops))), True)
            for o in ops:
                out.probe('damage-in-' + o['region'])
            atom = dict(case, variants=[ops])
            verdict = 'ok'
            seen = set()
            desc = {'level': 'track', 'enc': enc, 'class': case['class']}
            what = '%s track (%d,%d) %d sectors, class %s damage %s' % (enc, cyl, head, spt, case['class'],
                                                                        '; '.join('%s@%s[%s]+%d' % (o['k'], o['region'], o.get('rec'), o['off'] % 4096) for o in ops))
            if j['exception']:
                verdict = 'exception'
                out.violate('C06.crash', '%s: decoder threw: %s' % (what, j['error'][:120]), dict(desc, what='exception'), atom)
            for s in j['sectors']:
                addr = (s['c'], s['h'], s['r'])
                mark = b'\xfb' if enc == 'fm' else b'\xa1\xa1\xa1\xfb'
                crc_ok = flux.crc16_fast(mark + s['data'] + bytes(s['crc'])) == 0
                if not crc_ok:
                    verdict = 'bad-crc'
                    out.violate('C06.a', '%s: yielded sector %s whose data field fails the CRC check' % (what, addr), dict(desc, what='data-crc'), atom)
                    continue
                if addr in seen:
                    out.probe('duplicate-address-yielded')
                seen.add(addr)
                if (s['c'], s['h']) == (cyl, head) and s['data'] in by_payload and by_payload[s['data']] == s['r'] and s['r'] not in recorded:
                    verdict = 'non-data-record-yielded'
                    out.violate('C06.e', '%s: sector %s was recorded with a deleted/other data mark but was yielded as a data sector' % (what, addr), dict(desc, what='non-data-mark'), atom)
                    continue
                if (s['c'], s['h']) != (cyl, head) or s['r'] not in recorded:
                    if (s['c'], s['h']) == (cyl, head) and s['r'] in nodata:
                        # an ID field without a data field, and the ID of the sector physically behind it is what the
                        # damage hit: all a decoder can see is a good ID followed, within the legal distance, by a good
                        # data field.  Two faults at once; no reader can tell, so none is blamed
                        nxt = order[(order.index(s['r']) + 1) % len(order)]
                        if any(o.get('rec') == nxt and o['region'] in ('sync', 'idmark', 'id', 'idcrc') for o in ops):
                            out.probe('data-less-id-followed-by-damaged-id(unavoidable-pairing)')
                            continue
                    if case['class'] == 'G':
                        verdict = 'bad-address'
                        out.violate('C06.b', '%s: yielded a sector with address %s, which is not recorded on this track' % (what, addr), dict(desc, what='address'), atom)
                    else:
                        out.probe('possible-crc-collision(address)')
                    continue
                if s['data'] == recorded[s['r']]:
                    continue
                if s['data'] in by_payload:
                    verdict = 'misaddressed'
                    out.violate('C06.c', '%s: sector %s was returned with the data recorded under sector %d' % (what, addr, by_payload[s['data']]),
                                dict(desc, what='misaddressed'), atom)
                elif case['class'] == 'G':
                    verdict = 'wrong-data'
                    out.violate('C06.c', '%s: sector %s was returned with data that was never recorded' % (what, addr), dict(desc, what='wrong-data'), atom)
                else:
                    out.probe('possible-crc-collision(data)')
            if len(j['sectors']) < spt:
                out.probe('sector-dropped')
            out.sig('track', enc, case['class'], ','.join(sorted(set(o['region'] for o in ops))), ','.join(sorted(set(o['k'] for o in ops))), len(j['sectors']), verdict)

    def run_image(self, case, ctx, out):
        fc = case['flux']
        surfs = [dd.Surface.from_json(s) for s in case['surfaces']]
        rendered = [s.render() for s in surfs]
        dmg = {}
        for k, ops in case['damage'].items():
            s, t = k.split(':')
            dmg[(int(s), int(t))] = ops
        data, info = fluxwork.build(fc, rendered, dmg)
        kind = 'mfm' if fc['container'] == 'mfm' else 'hfe'
        e2 = ctx.e2
        j = e2.open(kind, data)
        out.runs += 1
        out.steps += 1
        out.fault('image:' + case['mode'], True)
        desc = {'level': 'image', 'container': fc['container'], 'mode': case['mode']}
        what = '%s %s image (%dx%dx%d), %s damage on %d track(s) [%s]' % (
            fc['container'], fc['enc'], fc['tracks'], fc['spt'], fc['sides'], case['mode'], len(dmg) or len(fc.get('reid') or {}),
            '; '.join('%s@%s[%s]' % (o['k'], o['region'], o.get('rec')) for o in list(dmg.values())[0][:3]) if dmg else
            '; '.join('ID of %s rewritten to %s' % kv for kv in sorted((fc.get('reid') or {}).items())[:3]))
        verdict = 'loaded'
        if not j['ok']:
            out.probe('image-rejected')
            out.sig('image', fc['container'], fc['enc'], case['mode'], 'rejected')
            return
        other_side = {}
        for sd in range(fc['sides']):
            for lba in range(fc['tracks'] * fc['spt']):
                other_side[rendered[sd][lba * 256:(lba + 1) * 256]] = (sd, lba)
        for d in j['drives']:
            # under the (default) physical policy side 0 of an image is drive 0 and side 1 is drive 2, whatever can
            # or cannot be recognised on either side
            di = {0: 0, 2: 1}.get(d['n'])
            if di is None or di >= fc['sides']:
                out.probe('drive-number-outside-the-image')
                continue
            g = d['geometry']
            spt_seen = g[2]
            if spt_seen <= 0:
                continue
            r = e2.readall(d['n'])
            out.steps += 1
            want = rendered[di]
            payload_at = {}
            for lba in range(fc['tracks'] * fc['spt']):
                payload_at[want[lba * 256:(lba + 1) * 256]] = lba
            for lba, sec in enumerate(r['sectors']):
                if sec is None or sec == 'E':
                    out.probe('image-sector-unreadable')
                    continue
                t, s = lba // spt_seen, lba % spt_seen
                exp = want[(t * fc['spt'] + s) * 256:(t * fc['spt'] + s + 1) * 256] if (s < fc['spt'] and t < fc['tracks']) else None
                if sec == exp:
                    continue
                src = payload_at.get(bytes(sec))
                verdict = 'misaddressed'
                if src is not None:
                    out.violate('C06.d', '%s: side %d: reading track %d sector %d returned the data recorded at track %d sector %d'
                                % (what, di, t, s, src // fc['spt'], src % fc['spt']), dict(desc, what='image-misaddressed'), case)
                elif bytes(sec) in other_side:
                    osd, olba = other_side[bytes(sec)]
                    out.violate('C06.d', '%s: drive %d (side %d): reading track %d sector %d returned the data recorded on side %d at track %d sector %d'
                                % (what, d['n'], di, t, s, osd, olba // fc['spt'], olba % fc['spt']), dict(desc, what='image-other-side'), case)
                elif case['class'] == 'G':
                    out.violate('C06.d', '%s: side %d: reading track %d sector %d returned data never recorded' % (what, di, t, s), dict(desc, what='image-wrong-data'), case)
                else:
                    out.probe('possible-crc-collision(image)')
                    continue
                break
        out.sig('image', fc['container'], fc['enc'], case['mode'], verdict, len(j['drives']))

    def group_key(self, v):
        d = v['desc']
        return (d.get('level'), d.get('enc') or d.get('container'), d.get('what'))

    def shrink(self, case, clause):
        if case['level'] == 'track' and case.get('variants'):
            ops = case['variants'][0]
            for i in range(len(ops)):
                if len(ops) > 1:
                    yield dict(case, variants=[ops[:i] + ops[i + 1:]])
            for i, o in enumerate(ops):
                if o.get('len', 0) > 8:
                    yield dict(case, variants=[ops[:i] + [dict(o, len=o['len'] // 2)] + ops[i + 1:]])
        if case['level'] == 'image':
            dmg = case['damage']
            keys = sorted(dmg)
            if len(keys) > 1 and case['mode'] != 'radial':
                for k in keys:
                    yield dict(case, damage={x: dmg[x] for x in keys if x != k})
            fc = case['flux']
            if fc.get('params') != 'same':
                yield dict(case, flux=dict(fc, params='same'))
            if fc.get('order') != 'seq':
                yield dict(case, flux=dict(fc, order='seq'))
            if fc['container'] == 'hfe3':
                yield dict(case, flux=dict(fc, container='hfe1'))


CHECK = C06()
