"""C19 — behaviour does not depend on whether assertions are compiled in.
Engine E1: the same simulated-kernel plan (inputs, options, environment, fault
plan) is executed by the NDEBUG build and by a build that differs from it in
NDEBUG only; unless the assertion build stops on a failed assertion, standard
output and exit status must agree."""

import re

from sim.orch import CheckBase, Outcome
from sim.prng import Rng
from checks import c07, c08


class C19(CheckBase):
    id = 'C19'
    level = 'exploration'
    engine = 'E1'
    builds = ['rel', 'rel-assert', 'dbg', 'msan-basic']
    rule = ('cases: the C07 workload (valid, damaged and hostile media of every container x every command with valid and '
            'hostile arguments x global options, with open/read/tmpfile/close fault plans) and the C08 workload (valid, '
            'mutated and random programs x dialect given or not x LISTO x option spellings x file/stdin, with read/open/stdout '
            'fault plans); each plan is executed by the pinned NDEBUG build, by the same flags without NDEBUG, and by the '
            'documented default (no build type) build, under identical simulated environments, and additionally under '
            'environment noise (MALLOC_PERTURB_, padded environment) so that state left uninitialised by code that lives '
            'inside assert() cannot agree by luck. runs in which an assertion build dies of a failed assertion are excluded, '
            'as the property says. distinct non-trivial = distinct (tool, workload class, fault delivered?, exit classes, '
            'event-log hash)')
    assumptions = [
        'the rel-assert configuration differs from the pinned RelWithDebInfo configuration in -DNDEBUG only (same -O2 -g); the dbg configuration is the documented default build (no optimisation, assertions on)',
        'a run counts as "stopped on a failed assertion" when it ends with SIGABRT and stderr carries an assertion message',
    ]
    real_components = ['dfs and bbcbasic_to_text in three build configurations built from /repo working tree', 'kernel tmpfs for un-faulted calls']
    stubbed_components = ['results of faulted system calls (decided by simkernel)']

    def budget(self, tier):
        return 1000 if tier == 'quick' else 30000

    def time_cap(self, tier):
        return 600 if tier == 'quick' else 5400

    def gen_case(self, rng, tier, index):
        tool = rng.weighted([(6, 'dfs'), (5, 'basic')])
        if tool == 'dfs':
            inner = c07.CHECK.gen_case(rng, tier, index)
            inner['build'] = 'rel'
            if rng.chance(0.3) and inner['image'].get('surfaces') and 'genflux' not in inner['image']:
                # the catalogue listing is the command with the most formatting state (columns, tab stops, fill
                # characters): exercise it on names and titles containing control characters
                for sj in inner['image']['surfaces']:
                    for v in sj['volumes']:
                        for f in v['files']:
                            if rng.chance(0.5):
                                n = rng.randint(2, 7)
                                f['name'] = bytes(rng.choice([0x09, 0x09, 0x0A, 0x0D, 0x1B, 0x7F, 0x08]) if rng.chance(0.35) else rng.randint(0x41, 0x5A) for _ in range(n))
                        if rng.chance(0.5):
                            v['title'] = bytes(rng.choice([0x09, 0x41, 0x42, 0x20]) for _ in range(rng.randint(2, 12)))
                inner['ops'] = []
                inner['cmd'] = ['cat']
                inner['globals'] = rng.choice([[], ['--ui', 'watford'], ['--ui', 'opus'], ['--ui', 'acorn'], ['--dir', 'A']])
                inner['fault'] = None
            elif rng.chance(0.45) and inner['image'].get('surfaces') and 'genflux' not in inner['image']:
                # a well-formed disc and a valid command from the whole menu: most of C07's plans damage the image,
                # and a command that is refused early never reaches the code both builds must agree on
                from sim import dfswork
                s0 = dfswork.surface_of({'surface': inner['image']['surfaces'][0]})
                which = rng.choice(dfswork.READ_CMDS + ['extract-files', 'extract-unused', 'sector-map', 'sector-map', 'space', 'free'])
                if s0.variant == 'opus' and rng.chance(0.7):
                    # (an Opus disc has structures of its own for these two to report: the disc catalogue in sector 16)
                    which = rng.choice(['sector-map', 'extract-unused', 'sector-map', 'free', 'space'])
                inner['cmd'] = [which, 'out'] if which.startswith('extract') else dfswork.gen_read_command(rng, s0, which)
                inner['ops'] = []
                inner['fault'] = None
                inner['globals'] = rng.choice([[], [], ['--ui', 'watford'], ['--ui', 'opus'], ['--drive', '0' + (s0.volumes[0].label or '')]])
                v0 = inner['image']['surfaces'][0]['volumes'][0]
                if v0['files'] and rng.chance(0.2):
                    # a file whose name starts with a dash, reached the way the manual says: after the -- terminator
                    f0 = rng.choice(v0['files'])
                    f0['name'] = b'-' + bytes(rng.choice(b'XYZabc09') for _ in range(rng.randint(0, 5)))
                    f0['dir'] = ord('$')
                    v0['files'] = [f for f in v0['files'] if f is f0 or (f['dir'], f['name'].upper()) != (f0['dir'], f0['name'].upper())]
                    which = rng.choice(['type', 'type', 'list', 'dump'])
                    inner['cmd'] = [which] + (['--binary'] if which == 'type' and rng.chance(0.3) else []) + ['--', f0['name'].decode('latin-1')]
                    inner['globals'] = ['--drive', '0' + (s0.volumes[0].label or '')]
        else:
            inner = c08.CHECK.gen_case(rng, tier, index)
            # the one concrete hazard the property names is the default dialect: leave it out more often
            if rng.chance(0.35):
                inner['dialect'] = None
            inner['build'] = ['rel', 'bbcbasic_to_text']
        return {'tool': tool, 'inner': inner, 'noise': rng.choice([None, None, '85', '170', '255']), 'pad': rng.choice([0, 0, 700, 3000])}

    def run_one(self, ctx, case, build):
        inner = dict(case['inner'])
        env = []
        if case['noise']:
            env.append('MALLOC_PERTURB_=' + case['noise'])
        if case['pad']:
            env.append('VERIF_PAD=' + 'y' * case['pad'])
        if case['tool'] == 'dfs':
            inner['build'] = build
            name, data = c07.CHECK.materialise(inner)
            fk = inner['fault']
            faults = []
            if fk == 'openfail':
                faults = [{'op': 'openfail', 'target': name, 'errno': inner['errno']}]
            elif fk == 'rfail':
                at = (len(data) * inner['fpos']) // 1000 if inner['fpos'] % 2 else inner['fpos'] % (min(len(data), 1024) + 1)
                faults = [{'op': 'rfail', 'target': 'in:' + name, 'errno': 'EIO', 'at': at}]
            elif fk == 'tmp_createfail':
                faults = [{'op': 'openfail', 'target': 'tmpfile', 'errno': inner['errno']}]
            elif fk == 'tmp_wfail':
                faults = [{'op': 'wfail', 'target': 'tmpfile', 'errno': 'ENOSPC', 'at': inner['fpos'] * 50}]
            elif fk == 'closefail':
                faults = [{'op': 'closefail', 'target': 'in:' + name, 'errno': 'EIO'}]
            sb = ctx.sb
            files = {name: data, 'out': None}
            argv = ['dfs']
            pf, pa = c07.CHECK.attach_prefix(inner)
            files.update(pf)
            argv += pa
            sb.reset(files)
            argv += ['--file', name] + inner['globals'] + inner['cmd']
            r = ctx.sk.run(sb, ctx.exe(build, 'dfs'), argv, faults=faults, env=env, wall_ms=20000, steps=800000, alloc_mb=256, as_mb=3072)
            return r, argv
        # basic: replicate C08's plan on the given build
        sb = ctx.sb
        files = {}
        names = []
        for i, ent in enumerate(inner['inputs']):
            nm = ent.get('name') or 'in%d.bbc' % i
            names.append(nm)
            d = c08.CHECK.materialise(ent)
            if d is not None and len(nm) < 250 and '/' not in nm:
                files[nm] = d
        sb.reset(files)
        argv = ['bbcbasic_to_text']
        st = inner['opt_style']
        for long_name, short_name, val in (('dialect', 'd', inner['dialect']), ('listo', 'l', inner['listo'])):
            if val is None:
                continue
            if st == 'eq':
                argv += ['--%s=%s' % (long_name, val)]
            elif st == 'short':
                argv += ['-' + short_name, val]
            elif st == 'short-attached' and val != '':
                argv += ['-' + short_name + val]
            else:
                argv += ['--' + long_name, val]
        if inner['extra']:
            argv.append(inner['extra'])
        stdin = None
        pipe = False
        if inner['delivery'] == 'file' or not names:
            argv += names
        else:
            argv += ['-'] + names[1:]
            if names[0] in files:
                stdin = names[0]
                pipe = inner['delivery'] == 'stdin_pipe'
        faults = []
        fk = inner['fault']
        if fk and names:
            tgt = 'stdin' if stdin else 'in:' + names[0]
            size = len(files.get(names[0], b''))
            if fk == 'openfail':
                faults = [{'op': 'openfail', 'target': names[0], 'errno': inner['errno']}]
            elif fk == 'rfail':
                faults = [{'op': 'rfail', 'target': tgt, 'errno': 'EIO', 'at': inner['fpos'] % (min(size, 48) + 1)}]
            elif fk == 'rchunk':
                faults = [{'op': 'rchunk', 'target': tgt, 'seed': inner['chunk']['seed'], 'max': inner['chunk']['max']}]
            elif fk == 'stdout_wfail':
                faults = [{'op': 'wfail', 'target': 'stdout', 'errno': 'ENOSPC', 'at': inner['fpos'] % 40}]
        r = ctx.sk.run(sb, ctx.exe(build, 'bbcbasic_to_text'), argv, stdin=stdin, stdin_pipe=pipe, faults=faults, env=env, wall_ms=8000, steps=200000,
                       san=(build == 'msan-basic'))
        return r, argv

    def run_case(self, case, ctx):
        out = Outcome()
        if case['tool'] == 'basic':
            self.msan_pair(ctx, out, case)
        ref, argv = self.run_one(ctx, case, 'rel')
        out.add_run(ref, ref=True)
        # the same plan once more on each build: state that only assert() initialises shows as a NDEBUG build whose
        # two identical runs differ while the assertion build's agree
        again = {}
        for build in ('rel', 'rel-assert'):
            a, _ = self.run_one(ctx, case, build)
            b, _ = (ref, None) if build == 'rel' else self.run_one(ctx, case, build)
            out.add_run(a)
            again[build] = (a.exit_class(), a['stdout'], a['stderr']) != (b.exit_class(), b['stdout'], b['stderr'])
        if again['rel'] and not again['rel-assert']:
            out.violate('C19.c.nondet', '%s: two identical simulated runs of the NDEBUG build differ while the assertion build is repeatable: it reads state that is initialised only when assertions are compiled in' % ' '.join(argv),
                        {'tool': case['tool'], 'what': 'ndebug-nondeterministic'}, case)
            return out
        if again['rel'] or again['rel-assert']:
            out.probe('both-builds-unrepeatable(C18.d)')
            return out
        wl = case['tool'] + ':' + (case['inner']['cmd'][0] if case['tool'] == 'dfs' else ('dialect' if case['inner']['dialect'] else 'no-dialect'))
        for build in ('rel-assert', 'dbg'):
            r, _ = self.run_one(ctx, case, build)
            out.add_run(r)
            if case['inner'].get('fault'):
                out.fault(case['inner']['fault'], r.fired() > 0)
            out.sig(wl, build, r.fired() > 0, ref.exit_class(), r.exit_class(), r['log_hash'])
            if r.signal == 6 and re.search(rb'Assertion|assert', r['stderr']):
                out.probe('assertion-build-stopped-on-assertion(excluded)')
                continue
            if ref.code is None or r.code is None:
                # crashes and time-outs are C07/C08's clauses; only compare when both return from main
                if ref.exit_class() != r.exit_class():
                    out.probe('abnormal-termination-differs(C07/C08)')
                continue
            if r.exit_class() != ref.exit_class() or r['stdout'] != ref['stdout']:
                out.violate('C19.a', '%s: the NDEBUG build gives %s, the %s build gives %s; stdout %s' % (
                    ' '.join(argv), ref.exit_class(), build, r.exit_class(), 'identical' if r['stdout'] == ref['stdout'] else 'differs'),
                    {'tool': case['tool'], 'build': build, 'what': 'exit' if r.exit_class() != ref.exit_class() else 'stdout'}, case)
        return out

    def msan_pair(self, ctx, out, case):
        """State that only code inside assert() initialises is invisible to an output comparison when the garbage
        happens to equal the intended value; MemorySanitizer sees it.  A report in the NDEBUG build that the
        assertion build (same plan) does not produce is exactly 'required initialisation lives inside an assert'."""
        orig = ctx.exe
        res = {}
        for label, tool in (('ndebug', 'bbcbasic_to_text'), ('assert', 'bbcbasic_to_text-dbg')):
            ctx.exe = lambda build, t, _tool=tool: orig('msan-basic', _tool)
            try:
                r, argv = self.run_one(ctx, dict(case, noise=None, pad=0), 'msan-basic')
            finally:
                ctx.exe = orig
            res[label] = r
            out.add_run(r)
        bad = lambda r: r.exit_class() == 'exit77' or b'MemorySanitizer' in r['stderr']
        out.sig('msan-pair', bad(res['ndebug']), bad(res['assert']), res['ndebug']['log_hash'])
        if bad(res['ndebug']) and not bad(res['assert']):
            out.violate('C19.b', '%s: the NDEBUG build uses uninitialised state (MemorySanitizer) where the assertion-enabled build does not: initialisation depends on assert()' % ' '.join(argv),
                        {'tool': 'basic', 'what': 'uninitialised-only-without-assertions'}, case)

    def group_key(self, v):
        d = v['desc']
        return (d.get('tool'), d.get('what'))

    def shrink(self, case, clause):
        if case['noise']:
            yield dict(case, noise=None)
        if case['pad']:
            yield dict(case, pad=0)
        sub = c07.CHECK if case['tool'] == 'dfs' else c08.CHECK
        for cand in sub.shrink(case['inner'], clause):
            yield dict(case, inner=cand)


CHECK = C19()
