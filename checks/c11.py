"""C11 — exit status 0 implies the output was completely written.  Engine E1:
the output device (stdout, each created file, close) refuses writes from a
chosen byte; the run is compared with its own fault-free reference."""

from sim.orch import CheckBase, Outcome
from sim import dfswork
from sim.models import basicprog as bp

ERRNOS = ['ENOSPC', 'EIO', 'EDQUOT', 'EFBIG', 'EPIPE']
BOUNDARIES = [0, 1, 2, 4095, 4096, 4097, 8191, 8192, 8193, 12288, 65535, 65536, 65537]


class C11(CheckBase):
    id = 'C11'
    level = 'fault_enumeration'
    engine = 'E1'
    builds = ['rel']
    rule = ('workloads: every command of dfs (cat, info, type, type --binary, list, dump, dump-sector, free, space, '
            'sector-map, show-titles, help, help CMD, --help, extract-files, extract-unused) on seeded discs and '
            'bbcbasic_to_text (files, stdin, --help, --dialect=help, --dump-token-maps -/FILE) on seeded programs; '
            'each with a fault-free reference run, then a write fault on one output target: wfail at byte K x errno '
            '(device refuses from K on), wfail-once (device recovers), closefail on a created file, benign wshort; '
            'stdout presented as file/pipe/tty. quick samples K boundary-weighted; thorough enumerates every K for '
            'streams <= 16 KiB. distinct non-trivial = distinct (tool, command, target kind, fault kind, errno, '
            'stdout kind, exit class, event-log hash) among runs in which the fault was delivered')
    assumptions = [
        'a fault is "delivered" when simkernel returned the error (or short count) to the program; runs whose armed fault never fired are judged by the strict oracle only',
        'EPIPE is delivered as an errno without SIGPIPE (death by signal is not exit status 0 and is outside the statement)',
        'for a device that recovers after one failed write only the consequence "exit 0 => complete output" is judged',
    ]
    real_components = ['dfs and bbcbasic_to_text binaries built from /repo working tree (RelWithDebInfo)', 'libstdc++ iostreams/filebuf', 'glibc stdio', 'kernel tmpfs for un-faulted calls']
    stubbed_components = ['results of faulted write()/writev()/close() calls and fstat()/ioctl()/lseek() on stdout (decided by simkernel)']

    def budget(self, tier):
        return 900 if tier == 'quick' else 5000

    def time_cap(self, tier):
        return 600 if tier == 'quick' else 5400

    # ---------------------------------------------------------------- generation
    def gen_fault(self, rng, tier, extract):
        kind = rng.weighted([(10, 'wfail'), (2, 'wfail_once'), (2, 'wshort'), (3 if extract else 0, 'closefail')])
        if extract:
            target = rng.weighted([(2, 'stdout'), (6, 'created')]) if kind != 'closefail' else 'created'
        else:
            target = 'stdout'
        f = {'kind': kind, 'target': target, 'errno': rng.choice(ERRNOS), 'which': rng.below(1000)}
        mode = rng.weighted([(4, 'frac'), (4, 'boundary'), (2, 'end')])
        f['k'] = {'mode': mode, 'v': rng.below(1001) if mode == 'frac' else (rng.below(len(BOUNDARIES)) if mode == 'boundary' else rng.randint(0, 3))}
        if kind == 'wshort':
            f['nth'] = rng.randint(1, 3)
            f['len'] = rng.choice([1, 2, 100, 4095])
        return f

    def gen_case(self, rng, tier, index):
        tool = rng.weighted([(7, 'dfs'), (3, 'basic')])
        case = {'tool': tool, 'stdout_kind': rng.weighted([(5, 'file'), (2, 'pipe'), (3, 'tty')])}
        enumerate_k = (tier == 'thorough' and rng.chance(0.25)) or (tier == 'quick' and rng.chance(0.03))
        if tool == 'dfs':
            disc = dfswork.gen_disc(rng)
            s = dfswork.surface_of(disc)
            cmd = rng.weighted([(10, 'read'), (4, 'extract-files'), (3, 'extract-unused')])
            case['disc'] = disc
            if cmd == 'read':
                which = rng.choice(dfswork.READ_CMDS + ['dump', 'type-binary', 'list', 'cat', 'info'])
                case['cmd'] = dfswork.gen_read_command(rng, s, which)
                extract = False
                if rng.chance(0.3):
                    # diagnostics switched on: stderr is busy long before anything fails, and the report of the failure
                    # still has to arrive on it
                    case['globals'] = [rng.choice(['--verbose', '--verbose', '--show-config'])]
                    if rng.chance(0.4):
                        # (the catalogue listing has diagnostics of its own: screen width, column layout)
                        case['cmd'] = dfswork.gen_read_command(rng, s, 'cat')
            else:
                if cmd == 'extract-files' and rng.chance(0.3):
                    # files whose length is a whole number of stdio buffers (or one byte less): the last sector written
                    # is then the one that makes the stream flush, so a device error surfaces inside the final write
                    from sim.models import dfsdisc as dd
                    files = []
                    pos = 2
                    for i in range(rng.randint(1, 3)):
                        ln = rng.choice([8192, 8191, 16384, 16383, 24576, 4096, 4095, 32768])
                        files.append(dd.FileEnt(ord('$'), b'F%d' % i, False, 0x1900, 0x8023, ln, pos))
                        pos += (ln + 255) // 256 + rng.choice([0, 0, 1])
                    files.sort(key=lambda f: -f.start)
                    v = dd.Volume(None, b'BUFSIZED', 3, 0, 800, files, 0, 0)
                    disc = {'surface': dd.Surface('acorn', 80, 10, [v], 1, 0, rng.below(65536)).to_json(), 'ext': 'ssd'}
                    s = dfswork.surface_of(disc)
                    case['disc'] = disc
                case['cmd'] = [cmd, rng.choice(['out', 'out/', './out'])]
                if rng.chance(0.3):
                    # a physically short image (emulators produce these): reads fail part-way through the extraction,
                    # which is one more path on which buffered output has to be accounted for
                    case['short_by'] = rng.choice([1, 255, 256, 257, 1000, 4096, 20000])
                case['globals'] = (['--drive', '0' + (rng.choice(s.volumes).label or '')] if (cmd == 'extract-files' and s.variant == 'opus') else [])
                extract = True
        else:
            d = rng.choice(bp.DIALECT_NAMES)
            mode = rng.weighted([(6, 'file'), (3, 'stdin'), (1, 'help'), (1, 'dialect-help'), (1, 'dump-stdout'), (2, 'dump-file')])
            case['dialect'] = d
            case['listo'] = rng.below(8)
            case['mode'] = mode
            if mode in ('file', 'stdin'):
                case['lines'] = [[no, p] for no, p in bp.gen_program(rng, d, nlines=rng.weighted([(3, rng.randint(1, 10)), (3, rng.randint(10, 200)), (1, rng.randint(200, 900))]))]
            extract = (mode == 'dump-file')
        case['fault'] = self.gen_fault(rng, tier, extract)
        if enumerate_k and case['fault']['kind'] in ('wfail', 'wfail_once'):
            case['enumerate'] = True
        return case

    # ---------------------------------------------------------------- execution
    def launch(self, ctx, out, case, faults, ref=False):
        sb = ctx.sb
        if case['tool'] == 'dfs':
            disc = case['disc']
            img = 'img.' + disc['ext']
            if not getattr(self, '_have', None) == id(case):
                pass
            sb.reset({img: case['_img'], 'out': None})
            argv = ['dfs', '--file', img] + case.get('globals', []) + case['cmd']
            r = ctx.sk.run(sb, ctx.exe('rel', 'dfs'), argv, faults=faults, stdout_kind=case['stdout_kind'], want_log=ref)
        else:
            files = {'out': None}
            argv = ['bbcbasic_to_text']
            stdin = None
            mode = case['mode']
            if mode == 'help':
                argv += ['--help']
            elif mode == 'dialect-help':
                argv += ['--dialect=help', 'nonexistent.bbc']
            elif mode == 'dump-stdout':
                argv += ['-D', '-']
            elif mode == 'dump-file':
                argv += ['-D', 'out/map.txt']
            else:
                files['p.bbc'] = case['_prog']
                argv += ['--dialect', case['dialect'], '--listo', str(case['listo'])]
                if mode == 'stdin':
                    argv += ['-']
                    stdin = 'p.bbc'
                else:
                    argv += ['p.bbc']
            sb.reset(files)
            r = ctx.sk.run(sb, ctx.exe('rel', 'bbcbasic_to_text'), argv, stdin=stdin, faults=faults, stdout_kind=case['stdout_kind'], want_log=ref)
        out.add_run(r, ref=ref)
        r['snapshot'] = sb.snapshot('out')
        if ref:
            # where each write to each target ends in the fault-free run: tells whether a later fault at byte K
            # surfaces in the middle of the run or only in the last write (the flush at exit / at close)
            ends = {}
            for ln in r.get('log', '').split('\n'):
                parts = ln.split(' ')
                if len(parts) >= 7 and parts[1] == 'write' and parts[-1].lstrip('-').isdigit() and int(parts[-1]) > 0:
                    e = ends.setdefault(parts[2], [])
                    e.append((e[-1] if e else 0) + int(parts[-1]))
            r['write_ends'] = ends
            r.pop('log', None)
        return r

    def resolve_k(self, spec, length):
        if 'abs' in spec:
            return spec['abs']
        m = spec['mode']
        if m == 'frac':
            return (length * spec['v']) // 1000
        if m == 'boundary':
            return min(BOUNDARIES[spec['v']], length)
        return max(0, length - spec['v'])

    def run_case(self, case, ctx):
        out = Outcome()
        case = dict(case)
        if case['tool'] == 'dfs':
            case['_img'] = dfswork.surface_of(case['disc']).render()
            if case.get('short_by'):
                case['_img'] = case['_img'][:max(1024, len(case['_img']) - case['short_by'])]
        elif 'lines' in case:
            case['_prog'] = bp.encode(case['dialect'], [(no, p) for no, p in case['lines']])
        ref = self.launch(ctx, out, case, [], ref=True)
        is_dialect_help = case['tool'] == 'basic' and case.get('mode') == 'dialect-help'
        if ref.code != 0 and not is_dialect_help:
            out.skip('reference-run-nonzero')
            return out
        ncreated = len([m for m in ref['mutations'] if m['op'] == 'open' and m['res'] >= 0])
        flt = case['fault']
        target = flt['target']
        if target == 'created':
            if ncreated == 0:
                target = 'stdout'
            else:
                target = 'created:%d' % (flt['which'] % ncreated)
        length = ref.accepted(target)
        atom = {k: v for k, v in case.items() if not k.startswith('_') and k != 'enumerate'}
        if case.get('enumerate') and length <= 16384:
            # quick: every offset of short streams, an even stride through longer ones
            stride = 1 if (ctx.tier == 'thorough' or length <= 768) else (length + 255) // 256
            out.probe('enumerated-every-offset-streams' if stride == 1 else 'enumerated-strided-streams')
            for k in range(0, length, stride):
                if ctx.expired():
                    out.probe('enumeration-cut-short')
                    break
                f2 = dict(flt, k={'abs': k}, target=target)
                self.one_fault(ctx, out, case, dict(atom, fault=f2), f2, target, ref, length)
        else:
            f2 = dict(flt, target=target)
            if flt['kind'] in ('wfail', 'wfail_once'):
                f2['k'] = {'abs': self.resolve_k(flt['k'], length)}
            self.one_fault(ctx, out, case, dict(atom, fault=f2), f2, target, ref, length)
        return out

    def one_fault(self, ctx, out, case, atom, flt, target, ref, length):
        kind = flt['kind']
        if kind in ('wfail', 'wfail_once'):
            k = flt['k']['abs']
            faults = [{'op': 'wfail', 'target': target, 'errno': flt['errno'], 'at': k, 'once': kind == 'wfail_once'}]
        elif kind == 'closefail':
            faults = [{'op': 'closefail', 'target': target, 'errno': flt['errno']}]
        else:
            faults = [{'op': 'wshort', 'target': target, 'nth': flt['nth'], 'len': flt['len']}]
        r = self.launch(ctx, out, case, faults)
        delivered = r.fired() > 0
        tk = target.split(':')[0]
        out.fault('%s@%s' % (kind, tk), delivered)
        cmdname = case['cmd'][0] if case['tool'] == 'dfs' else 'basic-' + case['mode']
        desc = {'tool': case['tool'], 'command': cmdname, 'target': tk, 'fault': kind}
        same = (r['stdout'] == ref['stdout'] and r['snapshot'] == ref['snapshot'])
        if delivered:
            out.sig(case['tool'], cmdname, tk, kind, flt['errno'] if kind != 'wshort' else '-', case['stdout_kind'], r.exit_class(), r['log_hash'])
            # where did the failure surface?
            if kind in ('wfail', 'wfail_once'):
                ends = ref.get('write_ends', {}).get(target, [])
                k = flt['k']['abs']
                last_start = ends[-2] if len(ends) >= 2 else 0
                where = 'in-last-write(exit-flush-or-close)' if k >= last_start else 'mid-run'
                if any(e == k for e in ends[:-1]):
                    where = 'exactly-between-two-writes'
                out.probe('surfaced-' + where)
            if case['stdout_kind'] == 'tty':
                out.probe('line-buffered-stdout')
            if kind == 'closefail':
                out.probe('surfaced-at-close')
        what = self.describe(case, flt, target, length)
        if r.code is None:
            # abnormal termination is C07/C08's business unless the fault caused it; report only for delivered faults
            if delivered:
                out.violate('C11.a', '%s: program did not exit normally (%s)' % (what, r.exit_class()), desc, atom)
            return
        if not delivered or kind == 'wshort':
            if r.code != ref.code or not same:
                out.violate('C11.c', '%s: no error was returned to the program, yet the result differs from the fault-free run (exit %d vs %d, output %s)'
                            % (what, r.code, ref.code, 'same' if same else 'differs'), desc, atom)
            return
        if kind != 'wfail_once':
            if r.code == 0:
                out.violate('C11.a', '%s: exit status 0' % what, desc, atom)
            elif not r['stderr']:
                out.violate('C11.a', '%s: exit status %d but nothing on stderr' % (what, r.code), desc, atom)
            elif ref['stderr'] and ref['stderr'].startswith(r['stderr']):
                # stderr carries what the fault-free run also prints there (diagnostic chatter) and not one byte more:
                # the failure itself was not reported
                out.violate('C11.a', '%s: exit status %d but stderr holds nothing the fault-free run does not print as well' % (what, r.code), desc, atom)
        if r.code == 0 and not same:
            out.violate('C11.b', '%s: exit status 0 but the output is incomplete or different (stdout %d of %d bytes; files %s)'
                        % (what, len(r['stdout']), len(ref['stdout']), 'same' if r['snapshot'] == ref['snapshot'] else 'differ'), desc, atom)

    def describe(self, case, flt, target, length):
        if case['tool'] == 'dfs':
            cmd = 'dfs ' + ' '.join(case.get('globals', []) + case['cmd'])
        else:
            cmd = 'bbcbasic_to_text (%s)' % case['mode']
        if flt['kind'] in ('wfail', 'wfail_once'):
            return '%s: %s refuses writes from byte %d of %d with %s%s (stdout is a %s)' % (
                cmd, target, flt['k']['abs'], length, flt['errno'], ' once' if flt['kind'] == 'wfail_once' else '', case['stdout_kind'])
        if flt['kind'] == 'closefail':
            return '%s: close() of %s returns %s' % (cmd, target, flt['errno'])
        return '%s: write %d to %s is short (%d bytes)' % (cmd, flt['nth'], target, flt['len'])

    def group_key(self, v):
        d = v['desc']
        return (d.get('tool'), d.get('command'), d.get('target'), d.get('fault'))

    # ---------------------------------------------------------------- shrinking
    def shrink(self, case, clause):
        if case['stdout_kind'] != 'file':
            yield dict(case, stdout_kind='file')
        f = case['fault']
        if f.get('errno') not in ('ENOSPC', None):
            yield dict(case, fault=dict(f, errno='ENOSPC'))
        if 'k' in f and 'abs' in f['k'] and f['k']['abs'] > 0:
            for k2 in (0, f['k']['abs'] // 2, f['k']['abs'] - 1):
                if k2 != f['k']['abs']:
                    yield dict(case, fault=dict(f, k={'abs': k2}))
        if case['tool'] == 'dfs':
            disc = case['disc']
            surf = disc['surface']
            for vi, v in enumerate(surf['volumes']):
                files = v['files']
                if case['cmd'][0] in ('type', 'list', 'dump'):
                    continue
                for i in range(len(files) - 1, -1, -1):
                    v2 = dict(v, files=files[:i] + files[i + 1:])
                    s2 = dict(surf, volumes=surf['volumes'][:vi] + [v2] + surf['volumes'][vi + 1:])
                    yield dict(case, disc=dict(disc, surface=s2))
        elif 'lines' in case and len(case['lines']) > 1:
            n = len(case['lines'])
            yield dict(case, lines=case['lines'][:n // 2])
            yield dict(case, lines=case['lines'][:1])


CHECK = C11()
