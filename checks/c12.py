"""C12 — dfs writes only where it was told to and never alters an image.
Engine E1: every mutating system call is seen at the seam, in a sandbox
arranged so that an escape would succeed."""

import hashlib
import os

from sim.orch import CheckBase, Outcome
from sim import dfswork
from sim.models import dfsdisc as dd

HOSTILE = [b'../ESC', b'..', b'.', b'a/b', b'/x', b'x/', b'../../E', b'..\\x', b'-rf', b'--help', b'a/../b', b'/', b'//', b'./x', b'.x',
           b'\x01\x02', b'a\x7fb', b'a\nb', b'*', b'?', b'~', b'$HOME', b'`id`', b';x', b'|x', b'>x', b'a\tb', b'../img', b'../o/x', b'.inf']
DIRS = [ord('$'), ord('/'), ord('.'), ord('-'), ord('A'), 0x01, 0x7F, ord('\\'), ord('~'), ord('*')]


class C12(CheckBase):
    id = 'C12'
    level = 'exploration'
    engine = 'E1'
    builds = ['rel']
    rule = ('cases: seeded discs (all variants) whose catalogue names and directory bytes range over 0x01-0x7F with a '
            'bias to path metacharacters (/, ., .., leading -, control bytes), x every command x destination spelling '
            '(with/without trailing slash, ./, absolute, dot suffix) x --dir; sandbox pre-arranged so every directory a '
            'hostile name would traverse exists and decoy files sit where it would land; optional write fault on a created '
            'file (error paths). invariant at every trapped system call: no image opened writable/truncated/renamed/'
            'unlinked; every successful creation is a direct child of the destination (extract commands) or absent '
            '(other commands); plus before/after tree snapshot. distinct non-trivial = distinct (command, destination '
            'spelling, number of hostile names, fault delivered?, set of mutation kinds, exit class, event-log hash)')
    assumptions = [
        'paths of successful opens are the kernel\'s own resolution (readlink of /proc/<pid>/fd/<n>); other mutating calls are resolved with realpath() of the parent directory by the supervisor',
        'only successful mutations are violations; failed attempts are counted in probes',
    ]
    real_components = ['dfs binary (RelWithDebInfo)', 'libstdc++ ofstream/filebuf', 'kernel tmpfs (the file system really creates what dfs asks for)']
    stubbed_components = ['results of faulted write() calls on created files (decided by simkernel)']

    def budget(self, tier):
        return 1500 if tier == 'quick' else 30000

    def time_cap(self, tier):
        return 600 if tier == 'quick' else 5400

    def gen_case(self, rng, tier, index):
        disc = dfswork.gen_disc(rng)
        surf = disc['surface']
        nh = 0
        for v in surf['volumes']:
            for f in v['files']:
                if rng.chance(0.45):
                    f['name'] = rng.choice(HOSTILE) if rng.chance(0.7) else bytes(rng.randint(1, 0x7F) for _ in range(rng.randint(1, 7)))
                    f['name'] = f['name'][:7]
                    nh += 1
                if rng.chance(0.3):
                    f['dir'] = rng.choice(DIRS) if rng.chance(0.7) else rng.randint(1, 0x7F)
        s = dfswork.surface_of(disc)
        cmdk = rng.weighted([(8, 'extract-files'), (3, 'extract-unused'), (4, 'read')])
        dest = rng.choice(['out', 'out/', './out', 'out/.', 'ABS/out', 'out//', 'sub/../out', 'ABS/out/',
                           'lnk/../out2', 'lnk/../out2/', 'ABS/lnk/../out2', 'lnkout', 'lnkout/', 'sub/deep/../../out'])
        if cmdk == 'extract-unused' and rng.chance(0.08):
            # a destination longer than any path may be (17 components of 250 characters): nothing can be created there,
            # and nothing may be created anywhere else instead (its ancestors exist)
            dest = 'LONGPATH'
        elif rng.chance(0.08):
            # legal directory names that look like something else: ending in a backslash, a space, a dot; starting with
            # a dash; containing a newline
            dest = rng.choice(['bs\\', 'bs\\/', 'sp ', ' lead', 'dot.', '-dash', 'a\nb', 'q"q', "o'o"])
        elif cmdk == 'extract-unused' and rng.chance(0.15):
            # a destination whose name contains a printf conversion: it is a directory name, not a format
            dest = rng.choice(['fm%dt', 'fm%3dt', 'f%xm', 'fm%dt/', '%d'])
        elif rng.chance(0.06):
            # the root directory as destination: whatever dfs then tries to create there is refused by the simulated kernel
            # (nothing outside the sandbox is ever touched); nothing may appear anywhere else instead
            dest = rng.choice(['/', '//', '/.', '///'])
        g = []
        if rng.chance(0.3):
            g += ['--dir', rng.choice(['$', '.', '/', 'A', '-'])]
        if s.variant == 'opus' and rng.chance(0.7):
            g += ['--drive', '0' + rng.choice(s.volumes).label]
        if cmdk == 'read':
            cmd = dfswork.gen_read_command(rng, s)
        else:
            if cmdk == 'extract-unused':
                g = [x for x in g if not x.startswith('0') and x != '--drive']
            cmd = [cmdk, dest]
        return {'disc': disc, 'cmd': cmd, 'globals': g, 'hostile': nh,
                'fault': rng.weighted([(6, None), (2, 'wfail'), (1, 'closefail')]) if cmdk != 'read' else None,
                'fwhich': rng.below(64), 'fat': rng.choice([0, 1, 100, 256, 4096]),
                'second': rng.chance(0.2),
                # the image may arrive gzip-compressed: dfs then spools it through a temporary file, which may fail to
                # be created or written; TMPDIR may name a directory of the sandbox.  None of that may leave anything behind.
                'gz': rng.chance(0.3), 'tmpfault': rng.weighted([(3, None), (4, 'createfail'), (2, 'wfail')]),
                'tmpdir': rng.weighted([(2, None), (3, 'tmpd'), (1, 'out'), (1, '.')]), 'terrno': rng.choice(['EROFS', 'EACCES', 'ENOSPC', 'EMFILE', 'EOPNOTSUPP'])}

    def arrange(self, case, sb, s):
        """Create the directories hostile names would traverse, and decoys."""
        root = sb.root
        # lnk -> sub/deep, so the kernel resolves lnk/../out2 to sub/out2 (not to ./out2, which also exists as a decoy);
        # lnkout -> out
        files = {'out': None, 'sub': None, 'sub/deep': None, 'sub/out2': None, 'out2': None, 'o': None, 'tmpd': None, 'decoy.txt': b'decoy\n',
                 'lnk': ('symlink', 'sub/deep'), 'lnkout': ('symlink', 'out'),
                 'ESC': b'pre-existing\n' if case['fwhich'] % 2 else None}
        if files['ESC'] is None:
            del files['ESC']
        sb.populate(files)
        dest = case['cmd'][-1] if case['cmd'][0] in ('extract-files', 'extract-unused') else ''
        if dest == 'LONGPATH':
            # created component by component (the whole path is longer than a system call accepts)
            fd = os.open(root, os.O_RDONLY | os.O_DIRECTORY)
            try:
                for _ in range(17):
                    try:
                        os.mkdir('L' * 250, dir_fd=fd)
                    except FileExistsError:
                        pass
                    nfd = os.open('L' * 250, os.O_RDONLY | os.O_DIRECTORY, dir_fd=fd)
                    os.close(fd)
                    fd = nfd
            finally:
                os.close(fd)
        if dest and not dest.startswith(('/', 'ABS')) and dest.rstrip('/') not in files and '/' not in dest.rstrip('/') and '%' not in dest:
            sb.populate({dest.rstrip('/'): None})
        if '%' in dest:
            # the named directory itself, and every directory its name would turn into if it were used as a format
            # with a sector number as argument (decoys: a mistake must find somewhere to land)
            d0 = dest.rstrip('/')
            decoys = {d0: None}
            for k in range(s.nsectors):
                decoys[d0 % k] = None
            sb.populate(decoys)
        for v, f in s.all_files():
            name = f.name.split(b' ')[0].split(b'\0')[0]
            for base in (name, bytes([f.dir]) + b'.' + name):
                p = os.path.join(root.encode(), getattr(self, '_dest_real', 'out').encode(), base)
                parent = os.path.dirname(os.path.normpath(p.replace(b'//', b'/'))) if False else os.path.dirname(p)
                try:
                    rp = os.path.realpath(parent)
                    if rp.startswith(root.encode()) and not os.path.exists(parent):
                        os.makedirs(parent, exist_ok=True)
                except (OSError, ValueError):
                    pass

    def ftarget(self, case):
        return 'created:*' if case['fwhich'] % 2 else 'created:%d' % (case['fwhich'] % 7)

    def run_case(self, case, ctx):
        out = Outcome()
        sb = ctx.sb
        s = dfswork.surface_of(case['disc'])
        img = s.render()
        name = 'img.' + case['disc']['ext']
        if case.get('gz'):
            from sim.models import gz as gzm
            img = gzm.compress(img, {'level': 6})
            name += '.gz'
        files = {name: img}
        if case['second']:
            files['other.ssd'] = dd.gen_surface(__import__('sim.prng', fromlist=['Rng']).Rng(77), variant='acorn', geom=(40, 10), img_id=7).render()
        sb.reset(files)
        self._dest_real = 'out'
        if case['cmd'][0] in ('extract-files', 'extract-unused'):
            d0 = case['cmd'][-1].replace('ABS', sb.root)
            sb.populate({'out': None, 'sub': None, 'sub/deep': None, 'sub/out2': None, 'out2': None, 'lnk': ('symlink', 'sub/deep'), 'lnkout': ('symlink', 'out')})
            self._dest_real = os.path.relpath(os.path.realpath(os.path.join(sb.root, d0)), os.path.realpath(sb.root))
        self.arrange(case, sb, s)
        before = sb.snapshot()
        cmd = [a.replace('ABS', sb.root) if a != 'LONGPATH' else ('L' * 250 + '/') * 17 for a in case['cmd']]
        argv = ['dfs', '--file', name] + (['--file', 'other.ssd'] if case['second'] else []) + case['globals'] + cmd
        faults = []
        if case['fault'] == 'wfail':
            faults = [{'op': 'wfail', 'target': self.ftarget(case), 'errno': 'ENOSPC', 'at': case['fat']}]
        elif case['fault'] == 'closefail':
            faults = [{'op': 'closefail', 'target': self.ftarget(case), 'errno': 'EIO'}]
        env = None
        nf = len(faults)
        if case.get('gz'):
            if case.get('tmpfault') == 'createfail':
                faults = faults + [{'op': 'openfail', 'target': 'tmpfile', 'errno': case['terrno']}]
            elif case.get('tmpfault') == 'wfail':
                faults = faults + [{'op': 'wfail', 'target': 'tmpfile', 'errno': 'ENOSPC', 'at': case['fat'] * 7}]
            if case.get('tmpdir'):
                env = ['TMPDIR=' + os.path.join(sb.root, case['tmpdir'])]
        r = ctx.sk.run(sb, ctx.exe('rel', 'dfs'), argv, faults=faults, env=env)
        out.add_run(r)
        delivered = r.fired() > 0
        if case['fault']:
            out.fault(case['fault'], delivered)
        if len(faults) > nf:
            out.fault('spool-' + case['tmpfault'], delivered)
        after = sb.snapshot()
        is_extract = case['cmd'][0] in ('extract-files', 'extract-unused')
        # the destination the user named, as the kernel resolves it
        dest_real = 'out'
        if is_extract:
            dest_real = os.path.relpath(os.path.realpath(os.path.join(sb.root, cmd[-1])), os.path.realpath(sb.root))
        muts = r['mutations']
        ok_muts = [m for m in muts if m['res'] >= 0]
        out.probe('failed-mutation-attempts', len(muts) - len(ok_muts))
        out.probe('successful-creations', len(ok_muts))
        kinds = ','.join(sorted(set(m['op'] for m in ok_muts))) or '-'
        out.sig(case['cmd'][0], case['cmd'][-1] if is_extract else '-', min(case['hostile'], 5), delivered, kinds, r.exit_class(), r['log_hash'])
        desc = {'command': case['cmd'][0]}
        what = 'dfs %s (disc with %d hostile names)' % (' '.join(repr(a) if not a.isprintable() else a for a in argv[1:]), case['hostile'])
        images = [name] + (['other.ssd'] if case['second'] else [])
        # C12.a images untouched
        for m in muts:
            if m['path'] in images and not (m['op'] == 'open' and 'O_RDONLY' in m['flags'] and 'O_TRUNC' not in m['flags'] and 'O_CREAT' not in m['flags']):
                if m['res'] >= 0 or m['op'] != 'open':
                    out.violate('C12.a', '%s: image file %s was the object of %s %s (result %d)' % (what, m['path'], m['op'], m['flags'], m['res']),
                                dict(desc, how=m['op']), case)
        for im in images:
            if after.get(im) != before.get(im):
                out.violate('C12.a', '%s: image file %s changed (sha256 %s -> %s)' % (what, im, before.get(im), after.get(im)), dict(desc, how='content'), case)
        # C12.b / C12.c
        for m in ok_muts:
            p = m['path']
            if p in images:
                continue
            if m['flags'] == 'outside' or p.startswith('/') or p.startswith('<..>'):
                out.violate('C12.b' if is_extract else 'C12.c', '%s: %s of %s, outside the sandbox' % (what, m['op'], p), dict(desc, where='outside-root'), case)
                continue
            if not is_extract:
                out.violate('C12.c', '%s: created or modified %s (%s)' % (what, p, m['op']), dict(desc, where='read-command'), case)
                continue
            d, b = os.path.split(p)
            if d != dest_real or not b:
                out.violate('C12.b', '%s: %s %r, which is not directly inside the destination directory (%s)' % (what, m['op'], p, dest_real), dict(desc, where='escape'), case)
        # C12.d snapshot agrees with the syscall record
        changed = sorted(k for k in set(before) | set(after) if before.get(k) != after.get(k))
        seen = set(m['path'] for m in ok_muts)
        for k in changed:
            if k not in seen and after.get(k) != 'dir':
                out.violate('C12.d', '%s: %s changed on disc but no mutating system call for it was observed' % (what, k), dict(desc, where='unobserved'), case)
            if k in images:
                continue
            d, b = os.path.split(k)
            if (not is_extract) or d != dest_real:
                if after.get(k) != before.get(k):
                    out.violate('C12.b' if is_extract else 'C12.c', '%s: tree snapshot shows %r created or changed outside the destination' % (what, k),
                                dict(desc, where='escape' if is_extract else 'read-command'), case)
        return out

    def group_key(self, v):
        d = v['desc']
        return (d.get('command'), d.get('where'), d.get('how'))

    def shrink(self, case, clause):
        if case['fault']:
            yield dict(case, fault=None)
        if case['second']:
            yield dict(case, second=False)
        if case.get('gz') and case.get('tmpfault'):
            yield dict(case, tmpfault=None)
        if case.get('gz'):
            yield dict(case, gz=False)
        if case.get('tmpdir'):
            yield dict(case, tmpdir=None)
        if case['globals']:
            yield dict(case, globals=[])
        disc = case['disc']
        surf = disc['surface']
        for vi, v in enumerate(surf['volumes']):
            files = v['files']
            for i in range(len(files) - 1, -1, -1):
                v2 = dict(v, files=files[:i] + files[i + 1:])
                s2 = dict(surf, volumes=surf['volumes'][:vi] + [v2] + surf['volumes'][vi + 1:])
                yield dict(case, disc=dict(disc, surface=s2))


CHECK = C12()
