"""C07 — dfs fails cleanly on arbitrary image files and command lines.  Engine E1
with ASan/UBSan and plain builds; medium damage plus open/read/tmpfile faults."""

import gzip
import os
import re

from sim.orch import CheckBase, Outcome
from sim import dfswork, fluxwork
from sim.models import gz
from sim.models import dfsdisc as dd

REPO = os.environ.get('VERIF_REPO', '/repo')
FLUX_BASES = ['wdfs-dd.hfe.gz', 'acorn-dfs-ss-80t-manyfiles.hfe.gz', 'wdfs-dd_HXCMFM_whatis.mfm.gz']
_cache = {}

INTERESTING = [0, 1, 2, 3, 4, 7, 8, 9, 0x10, 0x12, 0x13, 0x7F, 0x80, 0xAA, 0xF0, 0xF8, 0xFE, 0xFF]
HOSTILE_NUMS = ['0', '1', '2', '3', '4', '7', '-1', '-0', '99999999999999999999', '4294967295', '4294967296', '2147483648',
                '0A', '0H', '0Z', '1B', 'x', '', '0x1', ' 1', '1 ', '+1', '1e3', '65535', '65536', '255', '256', '1023', '1024']
HOSTILE_NAMES = ['*', '#', '*.*', '#.*', ':0.$.X', ':9.$.X', ':0Q.$.X', '$.', ':', ':0', ':0.', ':.', '::', 'A' * 300, '-x', '--binary',
                 '[', '(', '\\', '$.[', '$.(a', '$.a)', '$.a{', '$.^', '$.+', '$.?', '$.|', ':0.[.x', ':99999999999999999999.$.X', ':-1.$.X',
                 ':0A.$.X', ':0H.*.*', '..', '.', 'a.', '.a', 'ab', 'a.b.c', ':0.$.', '\x01', '\xff', 'é']
COMMANDS = ['cat', 'dump', 'dump-sector', 'extract-files', 'extract-unused', 'free', 'help', 'info', 'list', 'sector-map',
            'show-titles', 'space', 'type']


def flux_base(name):
    if name not in _cache:
        with open(os.path.join(REPO, 'dfs', 'testdata', name), 'rb') as f:
            _cache[name] = gzip.decompress(f.read())
    return _cache[name]


def structural_offsets(ext, size):
    """Byte offsets where format metadata lives, for aiming overwrites."""
    offs = []
    if ext in ('ssd', 'sdd', 'dsd', 'ddd'):
        offs += list(range(0x100, 0x108)) + list(range(0x105, 0x140)) + list(range(0, 16)) + list(range(0x200, 0x210)) + list(range(0x300, 0x310))
        offs += list(range(0x1000, 0x1020))
        if ext in ('dsd', 'ddd'):
            offs += list(range(0xA00 + 0x100, 0xA00 + 0x108)) + list(range(0x1200 + 0x100, 0x1200 + 0x108))
    elif ext == 'mmb':
        offs += list(range(0, 16)) + [16 * i + 15 for i in range(1, 40)] + list(range(8192 + 0x100, 8192 + 0x110))
    elif ext == 'hfe':
        offs += list(range(0, 26)) + list(range(512, 512 + 64)) + list(range(512 + 4 * 79, 512 + 4 * 82))
    elif ext == 'mfm':
        offs += list(range(0, 19)) + list(range(19, 19 + 44)) + list(range(19 + 11 * 79, 19 + 11 * 81))
    return [o for o in offs if o < size]


def boundaries(ext, size):
    b = [0, 1, 2, 7, 18, 19, 20, 25, 26, 29, 30, 255, 256, 257, 511, 512, 513, 767, 768, 1023, 1024, 1025, 2047, 2048, 4095, 4096, 4097,
         8191, 8192, 8193, 8192 + 255, 8192 + 256, 8192 + 512, 0x1000, 0x1100, 0x1200]
    return [x for x in b if x <= size]


def apply_ops(data, ext, ops):
    d = bytearray(data)
    for op in ops:
        k = op['k']
        n = len(d)
        if k == 'trunc':
            d = d[:min(op['at'], n)]
        elif n == 0:
            continue
        elif k == 'flip':
            d[op['at'] % n] ^= 1 << op['bit']
        elif k == 'set':
            d[op['at'] % n] = op['v']
        elif k == 'set16':
            p = op['at'] % n
            d[p] = op['v'] & 0xFF
            if p + 1 < n:
                d[p + 1] = (op['v'] >> 8) & 0xFF
        elif k == 'set32':
            p = op['at'] % n
            for i in range(4):
                if p + i < n:
                    d[p + i] = (op['v'] >> (8 * i)) & 0xFF
        elif k == 'fill':
            a = op['at'] % n
            d[a:a + op['n']] = bytes([op['v']]) * min(op['n'], n - a)
        elif k == 'splice':
            src = op['src']
            a = op['at'] % n
            d[a:a + len(src)] = src[:max(0, n - a)]
        elif k == 'extend':
            d += bytes([op['v']]) * op['n']
    return bytes(d)


class C07(CheckBase):
    id = 'C07'
    level = 'exploration'
    engine = 'E1'
    builds = ['rel', 'asan', 'dbg', 'asan-dbg']
    rule = ('media: seeded valid images of every container (.ssd/.sdd/.dsd/.ddd/.mmb generated; .hfe/.mfm from dfs/testdata '
            'and generated flux where available), plain or gzip-wrapped, subjected to medium faults: truncation at structure '
            'boundaries and random bytes, bit flips, fills, overwrites of header/catalogue/table fields with extreme values, '
            'splices, plus plain random bytes under each extension; commands: whole menu with valid and hostile arguments, '
            '--verbose on/off; dynamic faults: open failure, read error at an offset actually read, tmpfile creation failure, '
            'spool write failure, close() failure on the image. builds: ASan+UBSan and plain (quick), plus the '
            'assertion-enabled pair (thorough). distinct non-trivial = distinct (build, extension, gz?, damage kinds, command, '
            'fault kind delivered, exit class, stderr-empty?, event-log hash)')
    assumptions = [
        'ASan/UBSan reports are recognised by exit code 77 or their banner on stderr (libstdc++ vector annotations enabled)',
        'limits: 10 s wall, 400k steps, 256 MiB single allocation: typical run is 5 ms / 60 steps / 64 KiB',
        'a time-out verdict is re-run once with doubled limits before it is reported',
    ]
    real_components = ['dfs built from /repo working tree (RelWithDebInfo and ASan+UBSan; thorough adds assertion-enabled builds)', 'libstdc++, glibc stdio, zlib', 'kernel tmpfs for un-faulted calls']
    stubbed_components = ['results of faulted open/read/write/close calls on the image and on the O_TMPFILE spool (decided by simkernel)']
    max_groups = 12

    def budget(self, tier):
        return 2500 if tier == 'quick' else 60000

    def time_cap(self, tier):
        return 700 if tier == 'quick' else 7000

    # ---------------------------------------------------------------- generation
    def gen_ops(self, rng, ext, size):
        ops = []
        struct = structural_offsets(ext, size)
        for _ in range(rng.weighted([(2, 0), (6, 1), (3, 2), (2, rng.randint(3, 8))])):
            k = rng.weighted([(5, 'trunc'), (3, 'flip'), (6, 'set'), (3, 'set16'), (2, 'set32'), (3, 'fill'), (1, 'splice'), (1, 'extend')])
            aim = struct and rng.chance(0.75)
            at = rng.choice(struct) if aim else rng.below(max(1, size))
            op = {'k': k, 'at': at}
            if k == 'trunc':
                op['at'] = rng.choice(boundaries(ext, size)) if rng.chance(0.6) else rng.below(size + 1)
            elif k == 'flip':
                op['bit'] = rng.below(8)
            elif k == 'set':
                op['v'] = rng.choice(INTERESTING + [rng.below(256)])
            elif k == 'set16':
                op['v'] = rng.choice([0, 1, 0xFFFF, 0x7FFF, 0x8000, 0xFF00, 0x00FF, rng.below(65536)])
            elif k == 'set32':
                op['v'] = rng.choice([0, 1, 0x12, 0x13, 0xFFFFFFFF, 0x7FFFFFFF, 0x80000000, 0xFFFFFFF0, size, size - 1, size + 1, rng.below(1 << 32)]) & 0xFFFFFFFF
            elif k == 'fill':
                op['v'] = rng.choice([0, 0xFF, 0xAA, 0x4E, 0xE5])
                op['n'] = rng.choice([1, 8, 16, 256, 512, 4096, 70000])
            elif k == 'splice':
                op['src'] = rng.bytes(rng.choice([4, 16, 256]))
            elif k == 'extend':
                op['v'] = rng.choice([0, 0xFF])
                op['n'] = rng.choice([1, 255, 256, 4096])
            ops.append(op)
        return ops

    def gen_command(self, rng, image):
        hostile = rng.chance(0.45)
        cmd = rng.choice(COMMANDS + ['bogus-command', 'info', 'info'] if hostile else COMMANDS)     # (info takes wildcards)
        if image.get('slots') and rng.chance(0.3):
            # an MMB slot that is unformatted/invalid/unknown has a drive too: address its very first and last sectors
            odd = sorted(k for k, v in image['slots'].items() if v[1] is None) or sorted(image['slots'])
            return ['dump-sector', str(2 * int(rng.choice(odd))), rng.choice(['0', '0', '79', '1']), rng.choice(['0', '0', '9', '1'])]
        num = (lambda: rng.choice(HOSTILE_NUMS)) if hostile else (lambda: str(rng.choice([0, 0, 0, 1, 2, 3])))
        if image.get('surfaces'):
            s = dfswork.surface_of({'surface': image['surfaces'][0]})
            files = [(v, f) for v, f in s.all_files() if dfswork.safe_for_cmdline(f)]
        else:
            files = []
        def name():
            if hostile and rng.chance(0.25):
                # wildcards are turned into regular expressions: characters that mean something there, at either end
                return rng.choice(['^', 'A^', '*^', ':0.$.*^', '$.A^', '$', 'a$', '$.a\\', '*\\', '$.(', '$.*)', '$.[a', '$.a]', '$.{', '$.a{2', '$.+*', '#^#'])
            if hostile and rng.chance(0.7):
                return rng.choice(HOSTILE_NAMES)
            if files:
                v, f = rng.choice(files)
                return dfswork.fsp(v, f, 0, rng.choice(['full', 'dir', 'bare']))
            return rng.choice(['$.A', 'A', ':0.$.!BOOT', ':2.$.A'])
        argv = [cmd]
        if cmd in ('type', 'list', 'dump'):
            if cmd == 'type' and rng.chance(0.4):
                argv.append('--binary')
            argv.append(name())
            if hostile and rng.chance(0.2):
                argv.append(name())
        elif cmd == 'info':
            argv.append(rng.choice(['*.*', ':0.*.*', '#.*', ':2.*.*', '$.*']) if not hostile else name())
        elif cmd in ('cat', 'free', 'space', 'sector-map'):
            if rng.chance(0.5):
                argv.append(num())
        elif cmd == 'show-titles':
            for _ in range(rng.below(3)):
                argv.append(num())
        elif cmd == 'dump-sector':
            drv = num()
            if not hostile and image.get('slots'):
                # any slot's drive, formatted or not (slot n is drive 2n under the default policy)
                drv = str(2 * int(rng.choice(sorted(image['slots']))))
            edge = lambda n: str(rng.weighted([(3, 0), (2, n - 1), (1, n), (4, rng.below(n))]))
            argv += [drv, num() if hostile else edge(80), num() if hostile else edge(10)]
            if hostile and rng.chance(0.3):
                argv = argv[:rng.randint(1, 3)]
        elif cmd in ('extract-files', 'extract-unused'):
            argv.append(rng.choice(['out', 'out/', 'nonexistent-dir', 'out/../out']) if not hostile else rng.choice(['out', '', 'nonexistent/x', 'img']))
            if hostile and rng.chance(0.2):
                argv.append('extra')
        elif cmd == 'help':
            if rng.chance(0.5):
                argv.append(rng.choice(COMMANDS + ['bogus']))
        if hostile and rng.chance(0.1):
            argv = argv[:1]
        return argv

    def gen_globals(self, rng):
        g = []
        if rng.chance(0.35):
            g.append('--verbose')
        if rng.chance(0.15):
            g.append('--show-config')
        if rng.chance(0.2):
            g += ['--drive', rng.choice(['0', '1', '2', '0A', '0B', '3', '-1', '99999999999', 'x', ''])]
        if rng.chance(0.15):
            g += ['--dir', rng.choice(['$', 'A', '', 'AB', '.', '*', '^', '\\', '['])]
        if rng.chance(0.1):
            g += ['--ui', rng.choice(['acorn', 'watford', 'opus', 'bogus', ''])]
        if rng.chance(0.1):
            g.append(rng.choice(['--drive-first', '--drive-physical', '--bogus-option', '--help']))
        return g

    def gen_case(self, rng, tier, index):
        src = rng.weighted([(10, 'generated'), (4, 'flux'), (4, 'genflux'), (3, 'random')])
        image = {}
        image_cmd = None
        if src == 'generated':
            image = dfswork.gen_image(rng)
            ext = image['ext']
            size = None
            if rng.chance(0.3):
                # legal catalogue contents that are awkward to print: control characters (TAB, CR, LF, ESC, DEL),
                # high-bit bytes, names of spaces, titles with the same
                for sj in image['surfaces']:
                    for v in sj['volumes']:
                        for f in v['files']:
                            if rng.chance(0.3):
                                f['name'] = bytes(rng.choice([0x09, 0x0A, 0x0D, 0x1B, 0x7F, 0x01, 0x08, 0x0C, 0x41, 0x2E, 0x2A, 0x23, 0x3A]) if rng.chance(0.5) else rng.randint(0x21, 0x7E)
                                                  for _ in range(rng.randint(1, 7)))
                            if rng.chance(0.15):
                                f['dir'] = rng.choice([0x09, 0x0A, 0x1B, 0x7F, 0x2E, 0x2A, 0x23, 0x3A, 0x20])
                        if rng.chance(0.3):
                            v['title'] = bytes(rng.choice([0x09, 0x0A, 0x0D, 0x1B, 0x7F, 0x80 | 0x41, 0x41, 0x20]) for _ in range(rng.randint(1, 12)))
        elif src == 'genflux':
            fc, dmg = fluxwork.gen_hostile_flux(rng, sides=rng.weighted([(4, 1), (1, 2)]))
            if fc['container'] != 'mfm' and rng.chance(0.1):
                # header fields that no track consults: an image of one or two tracks whose track 0 declares its own
                # encoding on every side, with a global encoding byte that means nothing
                fc['tracks'] = rng.choice([1, 1, 2])
                fc['alt0'] = list(range(fc['sides']))
                fc['hdr'] = {'11': rng.choice([0xFF, 4, 0x80, 3])}
            variants = ['acorn', 'acorn', 'watford'] + (['opus', 'opus'] if fc['spt'] == 18 else [])
            surfaces = [dd.gen_surface(rng, variant=rng.choice(variants), geom=(fc['tracks'], fc['spt']), img_id=8, side=sd).to_json() for sd in range(fc['sides'])]
            if rng.chance(0.4):
                # a catalogue sector (track 0: sectors 0/1, Watford 2/3, the Opus volume catalogues and sector 16) that
                # cannot be decoded: the file-system probes meet an unreadable sector exactly where they look first
                sd = rng.below(fc['sides'])
                # (a track lacking its first or last record is still accepted by the container readers; one lacking a
                # record in between is refused outright)
                rec = rng.weighted([(6, 0), (2, 1), (1, 2), (1, 3), (2, 16 % fc['spt']), (2, fc['spt'] - 1), (1, rng.below(fc['spt']))])
                if rng.chance(0.6):
                    # ... and nothing else wrong with the image
                    dmg.clear()
                    fc['marks'] = {}
                dmg.setdefault('%d:0' % sd, []).append({'k': 'drop', 'region': rng.choice(['data', 'datamark', 'idmark', 'datacrc']), 'rec': rec,
                                                        'off': rng.below(4000), 'len': 16, 'v': 0})
            if rng.chance(0.15):
                # one sector of another size among the 256-byte ones (well-formed on the medium, unsupported by the tools):
                # the readers hand sectors around in 256-byte buffers
                t = rng.below(fc['tracks'])
                r = rng.weighted([(4, rng.randint(1, fc['spt'] - 1)), (1, 0)])
                bs = rng.below(fc['sides'])
                fc['bigsec'] = {'%d:%d:%d' % (bs, t, r): rng.choice([2, 3, 2, 0])}
                image_cmd = rng.weighted([(4, ['dump-sector', str(2 * bs), str(t), str(r)]), (2, ['extract-unused', 'out']), (1, ['extract-files', 'out']), (2, None)])
                if rng.chance(0.6):
                    dmg.clear()
                    fc['marks'] = {}
            ext = 'mfm' if fc['container'] == 'mfm' else 'hfe'
            image = {'genflux': fc, 'surfaces': surfaces, 'damage': dmg, 'ext': ext}
            size = 400000
        elif src == 'flux':
            base = rng.choice(FLUX_BASES)
            ext = 'hfe' if '.hfe' in base else 'mfm'
            image = {'flux_base': base, 'ext': ext}
            size = len(flux_base(base))
        else:
            ext = rng.choice(['ssd', 'sdd', 'dsd', 'ddd', 'mmb', 'hfe', 'mfm'])
            n = rng.weighted([(2, rng.randint(0, 64)), (3, rng.randint(64, 4096)), (2, rng.randint(4096, 300000))])
            head = {'hfe': rng.choice([b'HXCPICFE', b'HXCHFEV3']), 'mfm': b'HXCMFM\0'}.get(ext, b'')
            image = {'random': (head if rng.chance(0.7) else b'') + rng.bytes(n), 'ext': ext}
            size = len(image['random'])
        if size is None:
            size = {'ssd': 102400, 'sdd': 184320, 'dsd': 204800, 'ddd': 368640, 'mmb': 8192 + 204800}.get(ext, 100000)
        ops = self.gen_ops(rng, ext, size) if (src not in ('random', 'genflux') or rng.chance(0.3)) else []
        gzmode = rng.weighted([(7, None), (2, 'valid'), (1, 'damaged')])
        case = {'image': image, 'ops': ops, 'gz': gzmode, 'gz_ops': self.gen_ops(rng, 'gz', 2000)[:2] if gzmode == 'damaged' else [],
                'cmd': self.gen_command(rng, image), 'globals': self.gen_globals(rng),
                'second_image': rng.chance(0.08),
                'pre_images': [],
                'stem': rng.choice(['img', 'img', 'img', 'disc.v2', 'a.b.c', 'my disc', '-dash', 'IMG.SSD']),
                'build': rng.weighted([(5, 'asan'), (4, 'rel')] + ([(2, 'dbg'), (3, 'asan-dbg')] if tier == 'thorough' else [(1, 'asan-dbg')])),
                'fault': rng.weighted([(12, None), (1, 'openfail'), (3, 'rfail'), (1, 'tmp_createfail'), (1, 'tmp_wfail'), (1, 'closefail')]),
                'fpos': rng.below(1000), 'errno': rng.choice(['EIO', 'EACCES', 'EMFILE', 'ENOMEM', 'EISDIR', 'ENOSPC'])}
        if src == 'generated' and rng.chance(0.12):
            # several discs attached at once, some of them formatted but empty, and a command that walks a list of
            # drives (space, show-titles) or one that is pointed at a later drive: per-drive state must not leak
            # from one drive to the next
            for _ in range(rng.randint(1, 3)):
                sj = dd.gen_surface(rng, variant=rng.choice(['acorn', 'acorn', 'watford']), img_id=9, geom=(40, 10)).to_json()
                if rng.chance(0.4):
                    for v in sj['volumes']:
                        v['files'] = []
                case['pre_images'].append(sj)
            if rng.chance(0.4):
                for sj in image['surfaces']:
                    for v in sj['volumes']:
                        v['files'] = []
            ndrv = len(case['pre_images']) + 1
            drives = [str(rng.below(ndrv + 1)) for _ in range(rng.randint(1, 4))] if rng.chance(0.3) else [str(d) for d in range(ndrv)]
            pick = rng.below(5)
            if pick <= 1:
                case['cmd'] = ['space'] + drives
            elif pick == 2:
                case['cmd'] = ['show-titles'] + drives
            elif pick == 3:
                case['cmd'] = [rng.choice(['cat', 'free', 'sector-map', 'info']), drives[-1] if rng.chance(0.5) else str(ndrv - 1)]
                if case['cmd'][0] == 'info':
                    case['cmd'][1] = ':%s.*.*' % case['cmd'][1]
        if image_cmd:
            # a command that reads the sector the case is about
            case['cmd'] = image_cmd
        return case

    # ---------------------------------------------------------------- execution
    def attach_prefix(self, case):
        """Images attached before the one under test: (files for the sandbox, argv words)."""
        files = {}
        argv = []
        if case.get('second_image'):
            files['second.ssd'] = dfswork.render_image({'ext': 'ssd', 'surfaces': [SECOND]}) if SECOND else b''
            argv += ['--file', 'second.ssd']
        for i, sj in enumerate(case.get('pre_images') or []):
            files['pre%d.ssd' % i] = dfswork.render_image({'ext': 'ssd', 'surfaces': [sj]})
            argv += ['--file', 'pre%d.ssd' % i]
        return files, argv

    def materialise(self, case):
        image = case['image']
        if 'random' in image:
            data = image['random']
        elif 'genflux' in image:
            data, _ = fluxwork.build_from_json(image['genflux'], image['surfaces'], image.get('damage'))
        elif 'flux_base' in image:
            data = flux_base(image['flux_base'])
        else:
            data = dfswork.render_image(image)
        data = apply_ops(data, image['ext'], case['ops'])
        name = case.get('stem', 'img') + '.' + image['ext']
        if case['gz']:
            data = gz.compress(data, {'level': 6})
            if case['gz'] == 'damaged':
                data = apply_ops(data, 'gz', case['gz_ops'])
            name += '.gz'
        return name, data

    def run_once(self, ctx, case, name, data, faults, scale=1):
        sb = ctx.sb
        files = {name: data, 'out': None}
        argv = ['dfs']
        pf, pa = self.attach_prefix(case)
        files.update(pf)
        argv += pa
        sb.reset(files)
        argv += ['--file', name] + case['globals'] + case['cmd']
        build = case['build']
        san = build.startswith('asan')
        return ctx.sk.run(sb, ctx.exe(build, 'dfs'), argv, faults=faults, san=san, wall_ms=10000 * scale, steps=400000 * scale,
                          alloc_mb=256, as_mb=3072), argv

    def run_case(self, case, ctx):
        out = Outcome()
        name, data = self.materialise(case)
        fk = case['fault']
        faults = []
        if fk == 'openfail':
            faults = [{'op': 'openfail', 'target': name, 'errno': case['errno']}]
        elif fk == 'rfail':
            at = (len(data) * case['fpos']) // 1000 if case['fpos'] % 2 else case['fpos'] % (min(len(data), 1024) + 1)
            faults = [{'op': 'rfail', 'target': 'in:' + name, 'errno': 'EIO', 'at': at}]
        elif fk == 'tmp_createfail':
            faults = [{'op': 'openfail', 'target': 'tmpfile', 'errno': case['errno']}]
        elif fk == 'tmp_wfail':
            faults = [{'op': 'wfail', 'target': 'tmpfile', 'errno': 'ENOSPC', 'at': case['fpos'] * 50}]
        elif fk == 'closefail':
            faults = [{'op': 'closefail', 'target': 'in:' + name, 'errno': 'EIO'}]
        r, argv = self.run_once(ctx, case, name, data, faults)
        out.add_run(r)
        if r.timeout:
            # re-run once with doubled limits before believing a time-out
            r, argv = self.run_once(ctx, case, name, data, faults, scale=2)
            out.add_run(r)
        delivered = r.fired() > 0
        if fk:
            out.fault(fk, delivered)
        image = case['image']
        ext = image['ext']
        kinds = ','.join(sorted(set(o['k'] for o in case['ops']))) or '-'
        src = 'random' if 'random' in image else ('flux' if 'flux_base' in image else ('genflux' if 'genflux' in image else 'generated'))
        out.sig(case['build'], ext, case['gz'] or '-', src, kinds, case['cmd'][0], fk if delivered else '-', r.exit_class(), bool(r['stderr']), r['log_hash'])
        for o in case['ops']:
            out.probe('damage:' + o['k'])
        desc = {'build': case['build'], 'ext': ext, 'fault': fk if delivered else None}
        what = '%s: dfs %s on %s %s image (%d bytes; damage: %s)%s' % (
            case['build'], ' '.join(repr(a) if not a.isprintable() or ' ' in a or not a else a for a in argv[1:]), src, name, len(data), kinds,
            (' with ' + fk) if (fk and delivered) else '')
        err_tail = r['stderr'][-300:].decode('latin-1')
        if r.get('sanitizer'):
            m = re.search(rb'(ERROR: AddressSanitizer: [A-Za-z-]+|runtime error: [^\n]{0,100})', r['stderr'])
            kind = m.group(1).decode('latin-1') if m else 'sanitizer report'
            kind = re.sub(r'0x[0-9a-f]+', 'ADDR', kind)
            loc = re.search(rb'#0 0x[0-9a-f]+ +\(([^)]*dfs\+0x[0-9a-f]+)\)', r['stderr']) or re.search(rb'(dfs\+0x[0-9a-f]+)', r['stderr'])
            src_loc = re.search(rb'(/repo/dfs/[a-z_]+\.(?:cc|h):\d+)', r['stderr'])
            where = (src_loc.group(1).decode() if src_loc else (loc.group(1).decode() if loc else '?'))
            out.violate('C07.c', '%s: %s at %s' % (what, kind, where), dict(desc, kind=kind, where=where), case)
            return out
        if r.huge_alloc:
            out.violate('C07.e', '%s: requested a single allocation of %d bytes' % (what, r.huge_alloc), dict(desc, how='huge_alloc'), case)
            return out
        if r.timeout:
            out.violate('C07.f', '%s: did not terminate (%s limit, twice)' % (what, r.timeout), dict(desc, how='timeout'), case)
            return out
        if r.code is None:
            m = re.search(r"(terminate called[^\n]*|Assertion `[^']*' failed|[a-zA-Z_:]+: Assertion[^\n]*)", err_tail)
            how = r.exit_class() + (': ' + m.group(1) if m else '')
            out.violate('C07.b', '%s: did not return from main (%s)' % (what, how), dict(desc, how=re.sub(r'\d+', 'N', how)), case)
            return out
        if r.code not in (0, 1, 2):
            out.violate('C07.a', '%s: exit status %d' % (what, r.code), dict(desc, code=r.code), case)
        elif r.code != 0 and not r['stderr']:
            out.violate('C07.d', '%s: exit status %d without a diagnostic' % (what, r.code), dict(desc, cmd=case['cmd'][0]), case)
        return out

    def group_key(self, v):
        d = v['desc']
        return (d.get('kind'), d.get('where'), d.get('how'), d.get('code'), d.get('cmd'))

    def shrink(self, case, clause):
        if case['fault']:
            yield dict(case, fault=None)
        if case.get('second_image'):
            yield dict(case, second_image=False)
        pre = case.get('pre_images') or []
        for i in range(len(pre)):
            yield dict(case, pre_images=pre[:i] + pre[i + 1:])
        for i in range(len(pre)):
            if any(v['files'] for v in pre[i]['volumes']):
                yield dict(case, pre_images=pre[:i] + [dict(pre[i], volumes=[dict(v, files=v['files'][:len(v['files']) // 2]) for v in pre[i]['volumes']])] + pre[i + 1:])
        if case['globals']:
            yield dict(case, globals=[])
            for i in range(len(case['globals'])):
                yield dict(case, globals=case['globals'][:i] + case['globals'][i + 1:])
        if case['gz'] == 'valid':
            yield dict(case, gz=None)
        ops = case['ops']
        for i in range(len(ops)):
            yield dict(case, ops=ops[:i] + ops[i + 1:])
        if case['cmd'] != ['cat']:
            yield dict(case, cmd=['cat'])
        if len(case['cmd']) > 1:
            yield dict(case, cmd=case['cmd'][:-1])
        image = case['image']
        if 'random' in image and len(image['random']) > 1:
            d = image['random']
            for d2 in (d[:len(d) // 2], d[:len(d) - 1], d[:19], d[:512]):
                if len(d2) < len(d):
                    yield dict(case, image=dict(image, random=d2))
        if image.get('surfaces'):
            for si, surf in enumerate(image['surfaces']):
                for vi, v in enumerate(surf['volumes']):
                    if v['files']:
                        v2 = dict(v, files=v['files'][:len(v['files']) // 2])
                        s2 = dict(surf, volumes=surf['volumes'][:vi] + [v2] + surf['volumes'][vi + 1:])
                        yield dict(case, image=dict(image, surfaces=image['surfaces'][:si] + [s2] + image['surfaces'][si + 1:]))


def _second():
    from sim.prng import Rng
    from sim.models import dfsdisc as dd
    s = dd.gen_surface(Rng(12345), variant='acorn', img_id=9, geom=(40, 10))
    return s.to_json()


SECOND = _second()
CHECK = C07()
