"""C09 — bbcbasic_to_text rejects truncated or ill-formed programs and never
invents text.  Engine E1.  The input stream ending early is this tool's crash
point; several files per invocation with static line buffers is its history."""

from sim.orch import CheckBase, Outcome
from sim.models import basicprog as bp

JUDGED_REASONS = {'bad_start', 'short_len', 'truncated', 'missing_terminator', 'invalid_token', 'fastvar',
                  'ref_cut', 'ext_cut', 'invalid_ext'}


def materialise(case_file):
    """case_file: {'dialect', 'lines': [[no, payload|None]], 'mut': optional mutation} -> bytes"""
    lines = [(no, p) for no, p in case_file['lines']]
    enc_lines = [(no, p) for no, p in lines if p is not None]
    data = bytearray(bp.encode(case_file['dialect'], enc_lines))
    mut = case_file.get('mut')
    if mut:
        if mut['op'] == 'cut':
            data = data[:cut_offset(case_file, mut)]
        elif mut['op'] == 'set':
            data[abs_offset(case_file, mut)] = mut['value']
    return bytes(data)


def line_start(case_file, idx):
    o = 0
    for no, p in case_file['lines'][:idx]:
        o += 4 + len(p)
    return o


def cut_offset(case_file, mut):
    return line_start(case_file, mut['line']) + mut['off']


abs_offset = cut_offset


def total_len(case_file):
    be = bp.is_big_endian(case_file['dialect'])
    return line_start(case_file, len(case_file['lines'])) + (2 if be else 3)


class C09(CheckBase):
    id = 'C09'
    level = 'fault_enumeration'
    engine = 'E1'
    builds = ['rel']
    rule = ('cases: seeded well-formed programs per dialect x LISTO; faults: truncation of the input at a byte offset '
            '(file, stdin as file, stdin as pipe), read error (EIO) after a proper prefix was delivered, benign read '
            'chunking, single-byte framing/token corruption judged only when the framing validator names a listed '
            'defect class, sequences of 1-4 files (intact/truncated/ill-formed/missing). thorough enumerates every '
            'proper prefix of each program. distinct non-trivial = distinct (case kind, dialect family, LISTO, delivery, '
            'defect class or cut region, exit class, event-log hash) among runs where the fault was delivered')
    assumptions = [
        'token validity per dialect is taken from basic/testdata/golden-token-map.txt, pinned to the binary by the repo\'s own basic_invariant_token_map test',
        'the intact program\'s own listing (same binary, fault-free run, exit 0) is the reference for the prefix clause; its correctness is C03, not claimed here',
        'single-byte corruptions are judged only when the independent framing validator classifies the result as one of the defect classes the property lists',
    ]
    real_components = ['bbcbasic_to_text binary built from /repo working tree (RelWithDebInfo, the pinned configuration)', 'glibc stdio', 'kernel tmpfs for un-faulted calls']
    stubbed_components = ['results of faulted read()/lseek()/fstat() system calls (decided by simkernel)']

    def budget(self, tier):
        return 1500 if tier == 'quick' else 8000

    def time_cap(self, tier):
        return 600 if tier == 'quick' else 3600

    # ------------------------------------------------------------ generation
    def gen_file(self, rng, dialect, small=False):
        n = rng.randint(1, 5) if small else None
        lines = bp.gen_program(rng, dialect, nlines=n)
        return {'dialect': dialect, 'lines': [[no, p] for no, p in lines]}

    def gen_cut(self, rng, f):
        """A cut position (line, off) strictly inside the file (1..len-1), boundary weighted."""
        nl = len(f['lines'])
        tot = total_len(f)
        if tot <= 1:
            return None
        mode = rng.weighted([(3, 'any'), (3, 'in_payload'), (2, 'header'), (2, 'eof_marker'), (1 if nl < 255 else 6, 'line_boundary')])
        for _ in range(20):
            if mode == 'eof_marker' or nl == 0:
                marker = tot - line_start(f, nl)
                li, off = nl, rng.randint(0, marker - 1)
            else:
                li = rng.below(nl)
                plen = len(f['lines'][li][1])
                if mode == 'header':
                    off = rng.randint(0, 3)
                elif mode == 'line_boundary':
                    off = 0
                    if nl >= 255 and rng.chance(0.7):
                        # exactly k whole lines survive, for the k a narrow line counter would wrap at
                        li = rng.choice([x for x in (255, 256, 257, 511, 512, 513, 768, 1024) if x <= nl])
                        if li == nl:
                            return {'op': 'cut', 'line': nl, 'off': 0}
                elif mode == 'in_payload' and plen > 0:
                    off = (4 if bp.is_big_endian(f['dialect']) else 3) + rng.randint(0, plen - 1) + (0 if bp.is_big_endian(f['dialect']) else rng.below(2))
                else:
                    off = rng.randint(0, 3 + plen)
            k = line_start(f, li) + off
            if 1 <= k <= tot - 1:
                return {'op': 'cut', 'line': li, 'off': off}
        return {'op': 'cut', 'line': 0, 'off': 1} if tot > 1 else None

    def gen_corruption(self, rng, f):
        """A single-byte substitution aimed at a framing or token position."""
        d = f['dialect']
        be = bp.is_big_endian(d)
        nl = len(f['lines'])
        if nl == 0:
            return None
        li = rng.below(nl)
        empties = [i for i, (no, p) in enumerate(f['lines']) if len(p) == 0]
        if empties and rng.chance(0.4):
            li = rng.choice(empties)      # framing of an empty line is its own corner
        payload = f['lines'][li][1]
        plen = len(payload)
        kinds = ['len_small', 'len_big', 'len_off', 'token', 'tail_token', 'tail_token']
        kinds += ['start'] if be else ['term']
        if plen == 0:
            # an empty line has only framing to damage
            kinds = ['len_small', 'len_big', 'len_off'] + (['start'] * 3 if be else ['term'] * 3)
        kind = rng.choice(kinds)
        if kind == 'start':
            v = rng.choice([b for b in (0x00, 0x0A, 0x0C, 0x0E, 0x20, 0x8D, 0xFF, rng.below(256)) if b != 0x0D])
            return {'op': 'set', 'line': li, 'off': 0, 'value': v, 'aim': 'start'}
        if kind == 'term':
            v = rng.choice([b for b in (0x00, 0x0A, 0x20, 0xFF, rng.below(256)) if b != 0x0D])
            return {'op': 'set', 'line': li, 'off': 3 + plen, 'value': v, 'aim': 'terminator'}
        lenoff = 3 if be else 0
        cur = plen + 4
        if kind == 'len_small':
            v = rng.choice([0, 1, 2, 3] if be else [1, 2])
            return {'op': 'set', 'line': li, 'off': lenoff, 'value': v, 'aim': 'len_small'}
        if kind == 'len_big':
            v = rng.choice([255, 254, min(255, cur + rng.randint(1, 60))])
            if v == cur:
                v = 255 if cur != 255 else 254
            return {'op': 'set', 'line': li, 'off': lenoff, 'value': v, 'aim': 'len_big'}
        if kind == 'len_off':
            v = cur + rng.choice([-1, 1])
            if not (0 < v < 256):
                v = cur - 1
            return {'op': 'set', 'line': li, 'off': lenoff, 'value': v, 'aim': 'len_off_by_one'}
        if plen == 0:
            return None
        pstart = 4 if be else 3
        if kind == 'tail_token':
            # an operand-taking byte in the last 1..3 payload bytes
            cands = [b for b in (0x8D, 0xC6, 0xC7, 0xC8) if bp.base_kind(d, b) in ('linenum', 'c6', 'c7', 'c8', 'pdp')]
            if not cands:
                return None
            b = rng.choice(cands)
            back = rng.randint(1, 3) if b == 0x8D else 1
            pos = max(0, plen - back)
            return {'op': 'set', 'line': li, 'off': pstart + pos, 'value': b, 'aim': 'operand_cut'}
        # token: replace a payload byte by an invalid / fastvar / ext-intro byte
        bad = [b for b in range(1, 256) if bp.base_kind(d, b) in ('invalid', 'fastvar')]
        ext = [b for b in (0xC6, 0xC7, 0xC8) if bp.base_kind(d, b) in ('c6', 'c7', 'c8')]
        pool = bad + ext * 8
        if not pool:
            return None
        return {'op': 'set', 'line': li, 'off': pstart + rng.below(plen), 'value': rng.choice(pool), 'aim': 'token'}

    def gen_case(self, rng, tier, index):
        # the dialects with special two-byte tokens get extra weight: their operand handling is extra code
        d = rng.choice(bp.DIALECT_NAMES + ['PDP11', 'ARM', 'Mac'])
        listo = rng.weighted([(3, 7), (2, 0), (3, rng.below(8))])
        kind = rng.weighted([(5, 'prefix'), (2, 'rfail'), (1, 'chunk'), (4, 'corrupt'), (3, 'seq')]
                            + ([(3, 'prefix_all'), (2, 'corrupt_all')] if tier == 'thorough' else [(1, 'prefix_all'), (1, 'corrupt_all')]))
        if rng.chance(0.012):
            kind = 'many'
        delivery = rng.weighted([(4, 'file'), (2, 'stdin_file'), (2, 'stdin_pipe')])
        case = {'kind': kind, 'dialect': d, 'listo': listo, 'delivery': delivery}
        if kind in ('prefix', 'rfail', 'chunk', 'corrupt', 'prefix_all', 'corrupt_all'):
            f = self.gen_file(rng, d, small=(kind in ('prefix_all', 'corrupt_all') and tier == 'quick') or kind == 'corrupt_all' and rng.chance(0.7))
            if kind in ('prefix_all', 'corrupt_all') and len(f['lines']) > 130:
                # the exhaustive kinds cost one run per byte (or six): the 255..1024-line programs are for the sampled kinds
                f['lines'] = f['lines'][:130]
            case['file'] = f
            if kind == 'prefix':
                case['mut'] = self.gen_cut(rng, f)
            elif kind == 'rfail':
                case['mut'] = self.gen_cut(rng, f)
                case['errno'] = rng.choice(['EIO', 'EIO', 'ENOMEM', 'EISDIR'])
            elif kind == 'chunk':
                case['chunk'] = {'seed': rng.next64() & 0xFFFFFFFF, 'max': rng.choice([1, 2, 3, 7, 64, 300])}
            elif kind == 'corrupt':
                case['mut'] = self.gen_corruption(rng, f)
        elif kind == 'many':
            # hundreds of inputs on one command line, most or all of them failing: the exit status is that of the worst
            # file however many there are
            f = self.gen_file(rng, d, small=True)
            case['file'] = f
            case['mut'] = self.gen_cut(rng, f)
            case['n'] = rng.choice([255, 256, 256, 257, 512, 300, 1024])
            case['pattern'] = rng.choice(['all-truncated', 'all-missing', 'truncated-then-one-intact', 'intact-then-truncated', 'alternating-missing-truncated'])
        else:
            files = []
            for _ in range(rng.randint(1, 4)):
                what = rng.weighted([(4, 'intact'), (4, 'truncated'), (2, 'illformed'), (1, 'missing')])
                f = self.gen_file(rng, d, small=rng.chance(0.6))
                ent = {'what': what, 'file': f}
                if what == 'truncated':
                    ent['mut'] = self.gen_cut(rng, f)
                elif what == 'illformed':
                    ent['mut'] = self.gen_corruption(rng, f)
                files.append(ent)
            case['files'] = files
        return case

    # ------------------------------------------------------------ execution
    def run_tool(self, ctx, out, case, inputs, delivery='file', faults=(), ref=False):
        """inputs: list of (relname, bytes|None). Returns Result."""
        sb = ctx.sb
        sb.reset({name: data for name, data in inputs if data is not None})
        argv = ['bbcbasic_to_text', '--dialect', case['dialect'], '--listo', str(case['listo'])]
        stdin = None
        pipe = False
        if delivery == 'file':
            argv += [name for name, _ in inputs]
        else:
            argv += ['-']
            stdin = inputs[0][0]
            pipe = delivery == 'stdin_pipe'
        r = ctx.sk.run(sb, ctx.exe('rel', 'bbcbasic_to_text'), argv, stdin=stdin, stdin_pipe=pipe, faults=faults,
                       wall_ms=5000, steps=100000)
        out.add_run(r, ref=ref)
        return r

    def target(self, delivery, name):
        return 'stdin' if delivery != 'file' else 'in:' + name

    def run_case(self, case, ctx):
        out = Outcome()
        kind = case['kind']
        fam = 'BE' if bp.is_big_endian(case['dialect']) else 'LE'
        if kind == 'seq':
            self.run_seq(case, ctx, out, fam)
            return out
        if kind == 'many':
            self.run_many(case, ctx, out, fam)
            return out
        f = dict(case['file'])
        intact = materialise(f)
        delivery = case['delivery']
        ref = self.run_tool(ctx, out, case, [('p.bbc', intact)], delivery, ref=True)
        if ref.code != 0:
            out.skip('reference-run-nonzero')
            return out
        O = ref['stdout']
        if kind == 'prefix_all':
            tot = len(intact)
            for k in range(1, tot):
                if ctx.expired():
                    out.probe('enumeration-cut-short')
                    break
                # express k in (line, off) coordinates
                li = 0
                while li < len(f['lines']) and line_start(f, li + 1) <= k:
                    li += 1
                mut = {'op': 'cut', 'line': li, 'off': k - line_start(f, li)}
                atom = dict(case, kind='prefix', mut=mut)
                self.judge_prefix(atom, ctx, out, fam, O, intact)
            return out
        if kind == 'corrupt_all':
            # every byte of the file set to each of a few framing-relevant values; the validator decides which
            # results are ill-formed in a listed way, only those are judged
            be = fam == 'BE'
            for li, (no, p) in enumerate(f['lines'] + [[None, b'']]):
                width = (4 + len(p)) if no is not None else (2 if be else 3)
                for off in range(width):
                    for v in (0x00, 0x0D, 0xFF, 0x8D, 0x03, 0x04):
                        if ctx.expired():
                            return out
                        mut = {'op': 'set', 'line': li, 'off': off, 'value': v, 'aim': 'every-byte'}
                        f2 = dict(f, mut=mut)
                        data = materialise(f2)
                        if data == intact:
                            continue
                        ok, _, reason = bp.parse3(case['dialect'], data)
                        if ok or reason not in JUDGED_REASONS:
                            out.skip('corruption-not-judged')
                            continue
                        r = self.run_tool(ctx, out, case, [('p.bbc', data)], delivery)
                        out.fault('corrupt:every-byte', True)
                        out.sig('corrupt', fam, case['listo'], delivery, reason, r.exit_class(), r['log_hash'])
                        out.probe('defect-class:' + reason)
                        atom = dict(case, kind='corrupt', mut=mut)
                        self.judge_reject(atom, out, r, {'kind': 'corrupt', 'family': fam, 'reason': reason},
                                          'ill-formed program (%s, byte %d set to 0x%02X)' % (reason, abs_offset(f, mut), v))
            return out
        if kind == 'prefix' or kind == 'rfail':
            if not case.get('mut'):
                out.skip('no-cut-possible')
                return out
            self.judge_prefix(case, ctx, out, fam, O, intact)
        elif kind == 'chunk':
            ch = case['chunk']
            flt = [{'op': 'rchunk', 'target': self.target(delivery, 'p.bbc'), 'seed': ch['seed'], 'max': ch['max']}]
            r = self.run_tool(ctx, out, case, [('p.bbc', intact)], delivery, faults=flt)
            delivered = r.fired() > 0
            out.fault('rchunk', delivered)
            if delivered:
                out.sig('chunk', fam, case['listo'], delivery, r.exit_class(), r['log_hash'])
            if r.exit_class() != ref.exit_class() or r['stdout'] != O:
                out.violate('C09.c', 'read chunking (max %d) changed the result: %s vs %s, stdout %s'
                            % (ch['max'], r.exit_class(), ref.exit_class(), 'same' if r['stdout'] == O else 'differs'),
                            {'kind': 'chunk', 'family': fam, 'delivery': delivery}, case)
        elif kind == 'corrupt':
            if not case.get('mut'):
                out.skip('no-corruption-possible')
                return out
            f['mut'] = case['mut']
            data = materialise(f)
            ok, _, reason = bp.parse3(case['dialect'], data)
            out.fault('corrupt:' + case['mut'].get('aim', '?'), not ok)
            if ok:
                out.skip('corruption-left-program-well-formed')
                return out
            if reason not in JUDGED_REASONS:
                out.skip('corruption-class-not-judged:' + str(reason))
                return out
            r = self.run_tool(ctx, out, case, [('p.bbc', data)], delivery)
            out.sig('corrupt', fam, case['listo'], delivery, reason, r.exit_class(), r['log_hash'])
            out.probe('defect-class:' + reason)
            self.judge_reject(case, out, r, {'kind': 'corrupt', 'family': fam, 'reason': reason},
                              'ill-formed program (%s, byte %d set to 0x%02X)' % (reason, abs_offset(case['file'], case['mut']), case['mut']['value']))
        return out

    def judge_reject(self, case, out, r, desc, what):
        if r.code is None:
            out.violate('C09.a', '%s: did not exit normally (%s)' % (what, r.exit_class()), desc, case)
        elif r.code == 0:
            out.violate('C09.a', '%s: exit status 0' % what, desc, case)
        elif not r['stderr']:
            out.violate('C09.a', '%s: exit status %d but no diagnostic on stderr' % (what, r.code), desc, case)

    def judge_prefix(self, case, ctx, out, fam, O, intact):
        f = dict(case['file'])
        delivery = case['delivery']
        k = cut_offset(f, case['mut'])
        nl = len(f['lines'])
        region = 'eof_marker' if case['mut']['line'] >= nl else ('header' if case['mut']['off'] < (4 if fam == 'BE' else 3) else 'payload')
        if case['kind'] == 'rfail':
            flt = [{'op': 'rfail', 'target': self.target(delivery, 'p.bbc'), 'errno': case.get('errno', 'EIO'), 'at': k}]
            r = self.run_tool(ctx, out, case, [('p.bbc', intact)], delivery, faults=flt)
            delivered = r.fired() > 0
            out.fault('rfail', delivered)
            if not delivered:
                out.skip('rfail-not-delivered')
                return
            what = 'read error (%s) after %d of %d bytes' % (case.get('errno', 'EIO'), k, len(intact))
            desc = {'kind': 'rfail', 'family': fam, 'region': region}
        else:
            r = self.run_tool(ctx, out, case, [('p.bbc', intact[:k])], delivery)
            out.fault('truncate', True)
            what = 'program cut after %d of %d bytes (%s)' % (k, len(intact), region)
            desc = {'kind': 'prefix', 'family': fam, 'region': region}
        out.sig(case['kind'], fam, case['listo'], delivery, region, r.exit_class(), r['log_hash'])
        out.probe('cut-in-' + region)
        self.judge_reject(case, out, r, desc, what)
        if not O.startswith(r['stdout']):
            # where does it diverge?
            n = 0
            while n < len(O) and n < len(r['stdout']) and O[n] == r['stdout'][n]:
                n += 1
            out.violate('C09.b', '%s: printed text that is not a prefix of the intact listing (diverges at output byte %d: %r vs %r)'
                        % (what, n, r['stdout'][n:n + 24], O[n:n + 24]), desc, case)

    def run_seq(self, case, ctx, out, fam):
        inputs = []
        kinds = []
        for i, ent in enumerate(case['files']):
            name = 'f%d.bbc' % i
            f = dict(ent['file'])
            if ent['what'] == 'missing':
                inputs.append((name, None))
                kinds.append('missing')
                continue
            if ent['what'] in ('truncated', 'illformed') and ent.get('mut'):
                f['mut'] = ent['mut']
            data = materialise(f)
            inputs.append((name, data))
            kinds.append(ent['what'])
        solo_out = b''
        solo_max = 0
        for name, data in inputs:
            r = self.run_tool(ctx, out, case, [(name, data)], 'file', ref=True)
            if r.code is None:
                out.skip('solo-run-abnormal')     # C08's business, not this clause
                return
            solo_out += r['stdout']
            solo_max = max(solo_max, r.code)
        r = self.run_tool(ctx, out, case, inputs, 'file')
        out.fault('history', True)
        out.sig('seq', fam, case['listo'], ','.join(kinds), r.exit_class(), r['log_hash'])
        desc = {'kind': 'seq', 'family': fam}
        if r.code is None:
            out.violate('C09.d', 'files %s in one run: abnormal termination %s though each file alone exits normally' % (kinds, r.exit_class()), desc, case)
            return
        if r['stdout'] != solo_out:
            n = 0
            while n < len(solo_out) and n < len(r['stdout']) and solo_out[n] == r['stdout'][n]:
                n += 1
            out.violate('C09.d', 'files %s in one run: listing differs from the concatenation of each file\'s own listing at output byte %d (%r vs %r)'
                        % (kinds, n, r['stdout'][n:n + 24], solo_out[n:n + 24]), desc, case)
        if r.code != solo_max:
            out.violate('C09.d', 'files %s in one run: exit status %d, but the per-file statuses give %d' % (kinds, r.code, solo_max), desc, case)

    def run_many(self, case, ctx, out, fam):
        f = dict(case['file'])
        ok = materialise(f)
        bad = materialise(dict(f, mut=case['mut'])) if case.get('mut') else ok[:max(1, len(ok) // 2)]
        files = {'ok.bbc': ok, 'bad.bbc': bad}
        solo = {}
        for name in ('ok.bbc', 'bad.bbc', 'gone.bbc'):
            r = self.run_tool(ctx, out, case, [(name, files.get(name))], 'file', ref=True)
            if r.code is None:
                out.skip('solo-run-abnormal')
                return
            solo[name] = r
        n = case['n']
        pat = case['pattern']
        if pat == 'all-truncated':
            names = ['bad.bbc'] * n
        elif pat == 'all-missing':
            names = ['gone.bbc'] * n
        elif pat == 'truncated-then-one-intact':
            names = ['bad.bbc'] * n + ['ok.bbc']
        elif pat == 'intact-then-truncated':
            names = ['ok.bbc'] + ['bad.bbc'] * n
        else:
            names = ['gone.bbc', 'bad.bbc'] * (n // 2)
        sb = ctx.sb
        sb.reset(files)
        argv = ['bbcbasic_to_text', '--dialect', case['dialect'], '--listo', str(case['listo'])] + names
        r = ctx.sk.run(sb, ctx.exe('rel', 'bbcbasic_to_text'), argv, wall_ms=20000, steps=400000)
        out.add_run(r)
        out.fault('history', True)
        out.sig('many', fam, case['listo'], pat, n, r.exit_class(), r['log_hash'])
        desc = {'kind': 'many', 'family': fam}
        want_out = b''.join(solo[x]['stdout'] for x in names)
        want_code = max(solo[x].code for x in names)
        what = '%d inputs (%s) in one run' % (len(names), pat)
        if r.code is None:
            out.violate('C09.d', '%s: abnormal termination %s though each file alone exits normally' % (what, r.exit_class()), desc, case)
        elif r.code != want_code:
            out.violate('C09.d', '%s: exit status %d, but the per-file statuses give %d' % (what, r.code, want_code), desc, case)
        elif r['stdout'] != want_out:
            out.violate('C09.d', '%s: listing differs from the concatenation of each file\'s own listing' % what, desc, case)

    # ------------------------------------------------------------ shrinking
    def shrink(self, case, clause):
        kind = case['kind']
        if kind == 'seq':
            files = case['files']
            for i in range(len(files)):
                if len(files) > 1:
                    yield dict(case, files=files[:i] + files[i + 1:])
            for i, ent in enumerate(files):
                for f2, m2 in self._shrink_file(ent['file'], ent.get('mut')):
                    e2 = dict(ent, file=f2)
                    if m2 is not None:
                        e2['mut'] = m2
                    yield dict(case, files=files[:i] + [e2] + files[i + 1:])
            if case['listo'] != 0:
                yield dict(case, listo=0)
            return
        if 'file' not in case:
            return
        for f2, m2 in self._shrink_file(case['file'], case.get('mut')):
            c2 = dict(case, file=f2)
            if m2 is not None:
                c2['mut'] = m2
            yield c2
        if case['listo'] != 0:
            yield dict(case, listo=0)
        if case.get('delivery') != 'file':
            yield dict(case, delivery='file')

    def _shrink_file(self, f, mut):
        lines = f['lines']
        mline = mut['line'] if mut else None
        for i in range(len(lines) - 1, -1, -1):
            if mline is not None and i == mline:
                continue
            nl = lines[:i] + lines[i + 1:]
            m2 = dict(mut) if mut else None
            if m2 is not None and i < mline:
                m2['line'] = mline - 1
            yield dict(f, lines=nl), m2
        # shorten payloads of lines other than the one holding the mutation
        for i, (no, p) in enumerate(lines):
            if mline is not None and i == mline:
                continue
            if p and len(p) > 1:
                cand = p[:len(p) // 2]
                if bp.payload_wellformed(f['dialect'], cand):
                    yield dict(f, lines=lines[:i] + [[no, cand]] + lines[i + 1:]), (dict(mut) if mut else None)


CHECK = C09()
