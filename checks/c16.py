"""C16 — every attached image gets its own drive number and commands read the
right one.  Engine E1: histories of --file / --drive-first / --drive-physical."""

import re

from sim.orch import CheckBase, Outcome
from sim import dfswork
from sim.models import dfsdisc as dd
from checks.c07 import flux_base

FLUX = {'hfe1': ('wdfs-dd.hfe.gz', 'hfe'), 'hfe2': ('acorn-dfs-ss-80t-manyfiles.hfe.gz', 'hfe'), 'mfm': ('wdfs-dd_HXCMFM_whatis.mfm.gz', 'mfm')}


def opposite(d):
    return d + 2 if d % 4 in (0, 1) else d - 2


def model_attach(m, nsurf, policy):
    """m: set of occupied numbers; returns list of numbers for the new surfaces (documented policies)."""
    if policy == 'physical':
        n = 0
        while True:
            if n not in m and opposite(n) not in m and all((n + 2 * j) not in m for j in range(nsurf)):
                return [n + 2 * j for j in range(nsurf)]
            n += 1
    out = []
    n = 0
    occ = set(m)
    for _ in range(nsurf):
        while n in occ:
            n += 1
        out.append(n)
        occ.add(n)
    return out


SHOW_RE = re.compile(r'^Drive +(\d+): (empty|occupied)(?:, (.*))?$')


def parse_show_config(stderr):
    """Returns dict drive -> description string (or None for empty)."""
    out = {}
    for line in stderr.decode('latin-1').split('\n'):
        m = SHOW_RE.match(line)
        if m:
            out[int(m.group(1))] = m.group(3) if m.group(2) == 'occupied' else None
    return out


def surface_key(desc):
    """(file name, side/slot) from a show-config description."""
    m = re.search(r'side (\d) of (?:compressed )?(?:interleaved file|HFE file|HxC MFM file) (\S+)$', desc)
    if m:
        return (m.group(2), int(m.group(1)))
    m = re.search(r'non-interleaved file (\S+?)(?: side (\d))?$', desc)
    if m:
        return (m.group(1), int(m.group(2) or 0))
    m = re.search(r'slot +(\d+) of (?:compressed )?MMB file (\S+)$', desc)
    if m:
        return (m.group(2), int(m.group(1)))
    return None


class C16(CheckBase):
    id = 'C16'
    level = 'exploration'
    engine = 'E1'
    builds = ['rel']
    rule = ('histories: 1-6 attachments drawn from one-sided .ssd/.sdd, two-sided .dsd/.ddd, HFE and HxC-MFM flux images, '
            'multi-slot .mmb, with --drive-first/--drive-physical switches inserted at any point (also repeated/redundant), '
            'then --show-config and one command addressed to drive k (show-titles, cat, type --binary, dump-sector) for '
            'attached, empty and out-of-range k; each history is also run prefix by prefix; fault configuration: one '
            'attachment is corrupt or missing. oracle: 40-line reference allocation model (exact for 1-2 surface images and '
            'MMB under first-fit) + invariants (distinct numbers, stability under later attachments, no opposite side of '
            'another image under physical, n/n+2 for two-sided) + --show-config agrees + output carries only the tags/title '
            'of the surface mapped to k + only that image file is read by the command (difference of per-file read calls '
            'against the same history with a command that touches no drive). distinct non-trivial = distinct (history shape, '
            'policy sequence, addressed-drive class, command, exit class, event-log hash)')
    assumptions = [
        'the documented --show-config line format (Drive N: empty | occupied, <geometry>, <description naming the file and side/slot>) is the observable for the assignment',
        'titles of the flux test images are not unique, so tag/title checks are applied to generated images only',
    ]
    real_components = ['dfs binary (RelWithDebInfo)', 'kernel tmpfs']
    stubbed_components = ['open() of a deliberately failing attachment (decided by simkernel)']

    def budget(self, tier):
        return 800 if tier == 'quick' else 15000

    def time_cap(self, tier):
        return 600 if tier == 'quick' else 5400

    def gen_case(self, rng, tier, index):
        nfiles = rng.weighted([(2, 1), (4, 2), (4, 3), (2, rng.randint(4, 6))])
        hist = []
        kinds_used = set()
        for i in range(nfiles):
            while rng.chance(0.3):
                hist.append({'op': rng.choice(['first', 'physical'])})
            kind = rng.weighted([(5, 'single'), (4, 'interleaved'), (3, 'two-sided'), (1, 'mmb'), (1, 'hfe1'), (1, 'hfe2'), (1, 'mfm')])
            if kind == 'mmb' and 'mmb' in kinds_used:
                kind = 'single'
            kinds_used.add(kind)
            ent = {'op': 'file', 'kind': kind, 'name': 'i%d' % i}
            if kind in ('single', 'interleaved', 'two-sided', 'mmb'):
                im = dfswork.gen_image(rng, kind=kind, img_id=i + 1)
                # unique titles
                for si, s in enumerate(im['surfaces']):
                    for vi, v in enumerate(s['volumes']):
                        v['title'] = ('I%dS%dV%d' % (i, si, vi)).encode()
                ent['image'] = im
                ent['name'] += '.' + im['ext']
            else:
                ent['name'] += '.' + FLUX[kind][1]
            hist.append(ent)
        if rng.chance(0.2):
            hist.append({'op': rng.choice(['first', 'physical'])})
        bad = None
        if rng.chance(0.12):
            files = [j for j, h in enumerate(hist) if h['op'] == 'file']
            bad = {'at': rng.choice(files), 'how': rng.choice(['missing', 'garbage', 'openfail'])}
        return {'hist': hist, 'bad': bad, 'addr': rng.weighted([(6, 'attached'), (2, 'empty'), (1, 'far'), (2, 'alias')]),
                'pick': rng.below(1000), 'cmd': rng.choice(['show-titles', 'cat', 'type', 'dump-sector', 'cat-opt', 'type-ctx']),
                'tpick': rng.below(1000)}

    # ------------------------------------------------------------------
    def image_bytes(self, ent):
        if ent['kind'] in FLUX:
            return flux_base(FLUX[ent['kind']][0])
        return dfswork.render_image(ent['image'])

    def nsurfaces(self, ent):
        if ent['kind'] in FLUX:
            return 1
        if ent['kind'] == 'mmb':
            return 511
        return len(ent['image']['surfaces'])

    def opts(self, hist):
        argv = []
        for h in hist:
            if h['op'] == 'file':
                argv += ['--file', h['name']]
            else:
                argv.append('--drive-' + h['op'])
        return argv

    def expected_map(self, hist):
        """Model: list of (file name, surface index j, drive number) and exactness flag per file."""
        occ = set()
        policy = 'physical'
        out = []
        for h in hist:
            if h['op'] != 'file':
                policy = h['op']
                continue
            n = self.nsurfaces(h)
            nums = model_attach(occ, n, policy)
            exact = n <= 2 or policy == 'first'
            for j, d in enumerate(nums):
                occ.add(d)
                out.append((h['name'], j, d, exact, policy))
        return out

    def run_case(self, case, ctx):
        out = Outcome()
        sb = ctx.sb
        hist = case['hist']
        files = {}
        for h in hist:
            if h['op'] == 'file':
                files[h['name']] = self.image_bytes(h)
        bad = case['bad']
        faults = []
        if bad:
            bname = hist[bad['at']]['name']
            if bad['how'] == 'missing':
                del files[bname]
            elif bad['how'] == 'garbage':
                files[bname] = b'\x55' * 700
            else:
                faults = [{'op': 'openfail', 'target': bname, 'errno': 'EACCES'}]
        sb.reset(files)
        exe = ctx.exe('rel', 'dfs')
        shape = ''.join({'file': 'F', 'first': 'f', 'physical': 'p'}[h['op']] for h in hist)
        kinds = ','.join(h['kind'] for h in hist if h['op'] == 'file')
        desc = {'shape': kinds}

        if bad:
            r = ctx.sk.run(sb, exe, ['dfs'] + self.opts(hist) + ['--show-config', 'show-titles'], faults=faults)
            out.add_run(r)
            out.fault('attach-' + bad['how'], True)
            out.sig('bad', shape, kinds, bad['how'], r.exit_class(), r['log_hash'])
            if r.code != 1:
                out.violate('C16.h', 'history %s with attachment %s failing (%s): expected exit status 1, got %s' % (shape, hist[bad['at']]['name'], bad['how'], r.exit_class()),
                            dict(desc, what='bad-attach'), case)
            elif r['stdout']:
                out.violate('C16.h', 'history %s with attachment %s failing (%s): a command still ran and printed %r' % (shape, hist[bad['at']]['name'], bad['how'], r['stdout'][:60]),
                            dict(desc, what='bad-attach'), case)
            return out

        exp = self.expected_map(hist)
        # ---- prefixes: the map after i attachments
        file_idx = [j for j, h in enumerate(hist) if h['op'] == 'file']
        maps = []
        for upto in file_idx:
            pre = hist[:upto + 1]
            # include switches that follow the last file only in the final run
            if upto == file_idx[-1]:
                pre = hist
            r = ctx.sk.run(sb, exe, ['dfs'] + self.opts(pre) + ['--show-config', 'help'])
            out.add_run(r, ref=(upto != file_idx[-1]))
            if r.code != 0:
                out.violate('C16.e', 'history %s (prefix of %d entries): --show-config help failed with %s: %s' % (shape, len(pre), r.exit_class(), r['stderr'][-200:]),
                            dict(desc, what='attach-failed'), case)
                return out
            cfg = parse_show_config(r['stderr'])
            m = {}
            for d, dsc in cfg.items():
                if dsc is None:
                    continue
                k = surface_key(dsc)
                if k is None:
                    out.violate('C16.e', 'history %s: cannot parse --show-config description %r' % (shape, dsc), dict(desc, what='format'), case)
                    return out
                if k in m.values():
                    out.violate('C16.a', 'history %s: surface %s appears on more than one drive' % (shape, k), dict(desc, what='duplicate'), case)
                m[d] = k
            maps.append(m)
        final = maps[-1]
        base_reads = {p: v['calls'] for p, v in r['reads'].items()}
        # ---- C16.a every surface exactly once
        inv = {}
        for d, k in final.items():
            inv.setdefault(k, []).append(d)
        names = [h['name'] for h in hist if h['op'] == 'file']
        for h in hist:
            if h['op'] != 'file':
                continue
            n = self.nsurfaces(h)
            got = sorted(k for k in inv if k[0] == h['name'])
            if len(got) != n:
                out.violate('C16.a', 'history %s: image %s has %d surfaces but %d are attached (%s)' % (shape, h['name'], n, len(got), got[:6]),
                            dict(desc, what='missing-surface'), case)
        # ---- C16.b stability
        for i in range(len(maps) - 1):
            for d, k in maps[i].items():
                if final.get(d) != k:
                    out.violate('C16.b', 'history %s: after %d attachments %s was drive %d; at the end drive %d holds %s'
                                % (shape, i + 1, k, d, d, final.get(d)), dict(desc, what='moved'), case)
                    break
        # ---- C16.c/d model
        owner = {}
        for d, k in final.items():
            owner[d] = k[0]
        for name, j, d, exact, policy in exp:
            if not exact:
                continue
            h = [x for x in hist if x['op'] == 'file' and x['name'] == name][0]
            if h['kind'] == 'mmb':
                key = (name, j)
            else:
                key = (name, j)
            if final.get(d) != key:
                out.violate('C16.d' if policy == 'first' else 'C16.c',
                            'history %s: the %s policy puts surface %d of %s on drive %d, but --show-config reports %s there (surface is on %s)'
                            % (shape, policy, j, name, d, final.get(d), inv.get(key)), dict(desc, what='model', policy=policy), case)
        # physical invariants for every image attached under physical
        policy = 'physical'
        seen_before = set()
        for h in hist:
            if h['op'] != 'file':
                policy = h['op']
                continue
            mine = sorted(d for d, k in final.items() if k[0] == h['name'])
            if policy == 'physical':
                for d in mine:
                    o = opposite(d)
                    if o in seen_before:
                        out.violate('C16.c', 'history %s: %s (attached under the physical policy) got drive %d, the opposite side of drive %d which belongs to %s'
                                    % (shape, h['name'], d, o, owner.get(o)), dict(desc, what='opposite'), case)
                if self.nsurfaces(h) == 2 and len(mine) == 2 and mine[1] != mine[0] + 2:
                    out.violate('C16.c', 'history %s: two-sided %s is on drives %s, not n and n+2' % (shape, h['name'], mine), dict(desc, what='n+2'), case)
            seen_before.update(mine)

        # ---- the addressed command
        attached = sorted(final)
        gen_surfs = []   # (drive, hist entry, surface index in image)
        for d in attached:
            name, j = final[d]
            h = [x for x in hist if x['op'] == 'file' and x['name'] == name][0]
            if h['kind'] in FLUX:
                continue
            if h['kind'] == 'mmb':
                ent = h['image']['slots'].get(str(j))
                if not ent or ent[1] is None:
                    continue
                gen_surfs.append((d, h, ent[1]))
            else:
                gen_surfs.append((d, h, j))
        addr = case['addr']
        if addr == 'attached' and gen_surfs:
            d, h, si = gen_surfs[case['pick'] % len(gen_surfs)]
            self.addressed(ctx, out, case, hist, shape, kinds, desc, d, h, si, base_reads)
        else:
            empties = [d for d in range(0, max(attached) + 3) if d not in final]
            k = empties[case['pick'] % len(empties)] if addr == 'empty' else max(attached) + 50 + case['pick']
            if addr == 'alias':
                # a number that differs from an occupied drive's by a multiple of a power of two: it names no drive,
                # however many bits of it an implementation keeps
                occ = sorted(attached)
                d0 = occ[case['pick'] % len(occ)]
                k = d0 + [1 << 32, 1 << 33, 1 << 31, 1 << 16, 1 << 8, 3 << 32, (1 << 63) - (1 << 32), 1 << 40][case['tpick'] % 8]
                if k in final:
                    k += 1 << 34
            how = case['cmd']
            if addr == 'alias' and how in ('cat-opt', 'type-ctx'):
                argv = ['dfs'] + self.opts(hist) + ['--drive', str(k), 'cat']
            elif addr == 'alias' and how == 'type':
                argv = ['dfs'] + self.opts(hist) + ['info', ':%d.*.*' % k]
            else:
                argv = ['dfs'] + self.opts(hist) + (['show-titles', str(k)] if case['cmd'] != 'cat' else ['cat', str(k)])
            r = ctx.sk.run(sb, exe, argv)
            out.add_run(r)
            out.sig('addr-' + addr, shape, kinds, argv[-2], r.exit_class(), r['log_hash'])
            if r.code == 0 or r['stdout']:
                out.violate('C16.f', 'history %s: command addressed to drive %d, where nothing is attached, gave %s and printed %r'
                            % (shape, k, r.exit_class(), r['stdout'][:60]), dict(desc, what='empty-drive'), case)
        return out

    def addressed(self, ctx, out, case, hist, shape, kinds, desc, d, h, si, base_reads):
        sb = ctx.sb
        exe = ctx.exe('rel', 'dfs')
        s = dd.Surface.from_json(h['image']['surfaces'][si])
        rendered = s.render()
        vol = s.volumes[0]
        lab = vol.label or ''
        cmd = case['cmd']
        files = [(v, f) for v, f in s.all_files() if dfswork.safe_for_cmdline(f)]
        g = []
        # drive numbers are decimal however they are written: a quarter of the commands spell theirs with leading zeros
        dnum = d
        dsp = str(d)
        if case['tpick'] % 4 == 2:
            dsp = '%0*d' % (len(str(dnum)) + 1 + (case['tpick'] // 4) % 2, dnum)
        if cmd in ('type', 'type-ctx') and not files:
            cmd = 'show-titles'
        if cmd == 'show-titles':
            argv = ['show-titles', dsp]
        elif cmd == 'cat':
            argv = ['cat', '%s%s' % (dsp, lab)]
        elif cmd == 'cat-opt':
            g = ['--drive', '%s%s' % (dsp, lab)]
            argv = ['cat']
        elif cmd == 'type':
            v, f = files[case['tpick'] % len(files)]
            argv = ['type', '--binary', dfswork.fsp(v, f, dsp)]
        elif cmd == 'type-ctx':
            v, f = files[case['tpick'] % len(files)]
            g = ['--drive', '%s%s' % (dsp, v.label or '')]
            argv = ['type', '--binary', dfswork.fsp(v, f, dsp, 'dir')]
        else:
            t = case['tpick'] % s.tracks
            sec = (case['tpick'] // 7) % s.spt
            argv = ['dump-sector', dsp, str(t), str(sec)]
        if cmd == 'type' and case['tpick'] % 4 == 1:
            # an explicit :k. prefix in the name wins over the --drive option, whatever drive that names
            g = ['--drive', str(dnum + 1 + (case['tpick'] // 4) % 3)] + g
        if case['tpick'] % 3 == 0:
            # --ui after (or before) --drive: a presentation option must not disturb the addressing
            ui = ['--ui', ['acorn', 'watford', 'opus'][(case['tpick'] // 3) % 3]]
            g = g + ui if (case['tpick'] // 9) % 3 else ui + g
        full = ['dfs'] + self.opts(hist) + g + argv
        r = ctx.sk.run(sb, exe, full)
        out.add_run(r)
        out.sig('addr-attached', shape, kinds, cmd, r.exit_class(), r['log_hash'])
        what = 'history %s: %s (drive %d = surface %d of %s)' % (shape, ' '.join(g + argv), d, si, h['name'])
        d2 = dict(desc, what='addressed', cmd=cmd)
        if r.code != 0:
            out.violate('C16.f', '%s: failed with %s: %s' % (what, r.exit_class(), r['stderr'][-160:]), d2, case)
            return
        so = r['stdout']
        if cmd == 'show-titles':
            titles = [v.title.decode() for v in s.volumes]
            got = [ln.split(': ', 1)[1] if ': ' in ln else ln for ln in so.decode('latin-1').strip('\n').split('\n')]
            if got != titles:
                out.violate('C16.f', '%s: printed titles %s, the surface has %s' % (what, got, titles), d2, case)
        elif cmd in ('cat', 'cat-opt'):
            t = vol.title.decode()
            if t not in so.decode('latin-1').split('\n')[0]:
                out.violate('C16.f', '%s: first line %r does not show the title %r' % (what, so.split(b'\n')[0], t), d2, case)
        elif cmd in ('type', 'type-ctx'):
            body = s.body(rendered, v, f)
            if so != body:
                tags = dd.parse_tags(so)[:2]
                out.violate('C16.f', '%s: output is not the file\'s body (first tags in output: %s; expected image %d side %d)'
                            % (what, tags, s.img_id, s.side), d2, case)
        else:
            lba = int(argv[2]) * s.spt + int(argv[3])
            want = rendered[lba * 256:(lba + 1) * 256]
            got = bytearray()
            for ln in so.decode('latin-1').split('\n'):
                parts = ln.split(' ')
                if len(parts) >= 9:
                    for x in parts[1:9]:
                        if len(x) == 2 and x != '**':
                            got.append(int(x, 16))
            if bytes(got) != want:
                out.violate('C16.f', '%s: dumped sector carries tags %s, expected image %d side %d lba %d' % (what, dd.parse_tags(bytes(got))[:1], s.img_id, s.side, lba), d2, case)
        # ---- C16.g: only the image behind drive d is read by the command
        for p, v in r['reads'].items():
            extra = v['calls'] - base_reads.get(p, 0)
            if extra > 0 and p != h['name']:
                out.violate('C16.g', '%s: the command made %d read call(s) on %s, which does not back drive %d' % (what, extra, p, d), dict(desc, what='foreign-read'), case)
        out.probe('command-read-calls-on-own-image', max(0, r['reads'].get(h['name'], {'calls': 0})['calls'] - base_reads.get(h['name'], 0)))

    def group_key(self, v):
        d = v['desc']
        return (d.get('what'), d.get('policy'), d.get('cmd'))

    def shrink(self, case, clause):
        hist = case['hist']
        for i in range(len(hist) - 1, -1, -1):
            if len([h for h in hist if h['op'] == 'file']) > 1 or hist[i]['op'] != 'file':
                h2 = hist[:i] + hist[i + 1:]
                if any(h['op'] == 'file' for h in h2):
                    c2 = dict(case, hist=h2)
                    if case['bad'] and case['bad']['at'] >= i:
                        if case['bad']['at'] == i:
                            continue
                        c2['bad'] = dict(case['bad'], at=case['bad']['at'] - 1)
                    yield c2


CHECK = C16()
