"""C04 — sector-dump containers map (drive, track, sector) to the documented
offset.  Engine E2 (simulated disc behind DFS::FileAccess) + E1 spot checks."""

from sim.orch import CheckBase, Outcome
from sim import dfswork
from sim.e2 import WorkerDied
from sim.models import dfsdisc as dd

STATUS = [0x00, 0x0F, 0xF0, 0xFF, 0x01, 0x7F, 0x80, 0xF1]


class C04(CheckBase):
    id = 'C04'
    level = 'exploration'
    engine = 'E2+E1'
    builds = ['rel', 'simdisk']
    rule = ('cases: tagged surfaces (every sector names its image, side and number) in .ssd/.sdd with one or two sides, '
            '.dsd/.ddd, and .mmb files with 1-8 populated slots at seeded slot numbers 0..510 and status bytes from '
            '{00, 0F, F0, FF, other}; geometries the documented probing rules identify (others counted as ambiguous and '
            'skipped). zero-fault: every sector of every attached drive must be the 256 bytes at the documented offset; '
            'F0/FF/other slots must be unformatted. faults: physical end of medium at byte k (also mid-sector, inside the '
            'MMB table), read error on the n-th read or on a read touching byte x: sectors wholly before the cut still '
            'read exactly, others fail - never other data. distinct non-trivial = distinct (container, geometry, sides/'
            'slots, fault kind, fault position class, verdict)')
    assumptions = [
        'documented offsets: contiguous per side for .ssd/.sdd, alternating tracks by side for .dsd/.ddd, 8192 + slot*204800 for .mmb (doc/dfs.1, doc/mmb.5)',
        'a case whose reported geometry differs from the intended one is counted as ambiguous and not judged',
    ]
    real_components = ['repo library code: img_fileio.cc, img_sdf.cc, img_mmb.cc, img_load.cc, identify.cc, storage.cc (ASan+UBSan)', 'dfs binary under E1 for dump-sector spot checks']
    stubbed_components = ['SimFileAccess (the medium, in memory)']

    def budget(self, tier):
        return 1000 if tier == 'quick' else 15000

    def time_cap(self, tier):
        return 600 if tier == 'quick' else 5400

    def gen_case(self, rng, tier, index):
        kind = rng.weighted([(3, 'single'), (2, 'two-sided'), (4, 'interleaved'), (4, 'mmb')])
        case = {'kind': kind}
        if kind == 'single':
            case['image'] = dfswork.gen_image(rng, 'single', img_id=5)
        elif kind == 'interleaved':
            case['image'] = dfswork.gen_image(rng, 'interleaved', img_id=5)
            if rng.chance(0.3):
                # only one side was ever formatted: the other holds a formatter's filler (no catalogue at all)
                which = 1      # (an image whose first side has no catalogue cannot be identified at all, by design)
                s0 = case['image']['surfaces'][which]
                case['image']['surfaces'][which] = dd.Surface('blank', s0['tracks'], s0['spt'], [], 5, which, rng.choice([0xE5, 0x00, 0xFF, 0x4E])).to_json()
        elif kind == 'two-sided':
            im = dfswork.gen_image(rng, 'interleaved', img_id=5)
            im['ext'] = 'ssd' if im['ext'] == 'dsd' else 'sdd'
            case['image'] = im
        else:
            nslots = rng.randint(1, 8)
            slots = {}
            surfaces = []
            chosen = sorted(rng.sample(range(511), nslots)) if rng.chance(0.5) else sorted(rng.sample(range(24), min(nslots, 24)))
            for k, sl in enumerate(chosen):
                s = dd.gen_surface(rng, variant=rng.choice(['acorn', 'watford']), img_id=5, side=k, geom=(80, 10))
                surfaces.append(s.to_json())
                slots[str(sl)] = [rng.choice([0x00, 0x0F]), k]
            for _ in range(rng.randint(0, 6)):
                sl = rng.below(511)
                if str(sl) not in slots:
                    slots[str(sl)] = [rng.choice(STATUS[2:]), None]
            case['image'] = {'ext': 'mmb', 'surfaces': surfaces, 'slots': slots, 'sparse': True}
        fault = rng.weighted([(5, None), (4, 'eof'), (2, 'ioerror_nth'), (2, 'ioerror_touch')])
        case['fault'] = fault
        case['fpos'] = rng.below(100000)
        case['fmode'] = rng.weighted([(3, 'any'), (2, 'sector-boundary'), (2, 'mid-sector'), (1, 'table'), (1, 'start')])
        case['policy'] = rng.choice(['physical', 'first'])
        case['spot'] = rng.below(8) < 3
        case['spot_pick'] = rng.below(100000)
        return case

    # ------------------------------------------------------------------
    def layout(self, image):
        """Returns (file bytes, list of (surface_idx, tracks, spt, offset_fn)) where offset_fn(lba) is the documented file offset."""
        surfs = [dd.Surface.from_json(s) for s in image['surfaces']]
        ext = image['ext']
        rend = [s.render() for s in surfs]
        if ext in ('ssd', 'sdd'):
            data = b''.join(rend)
            out = []
            base = 0
            for i, s in enumerate(surfs):
                out.append((i, s.tracks, s.spt, (lambda b: (lambda lba: b + lba * 256))(base)))
                base += len(rend[i])
            return data, out, rend
        if ext in ('dsd', 'ddd'):
            spt = surfs[0].spt
            data = dd.dsd_image(rend[0], rend[1], spt)
            f0 = lambda lba: ((lba // spt) * 2 * spt + lba % spt) * 256
            f1 = lambda lba: ((lba // spt) * 2 * spt + spt + lba % spt) * 256
            return data, [(0, surfs[0].tracks, spt, f0), (1, surfs[1].tracks, spt, f1)], rend
        # mmb (sparse: the file is as long as the highest populated slot needs)
        slots = image['slots']
        hi = max(int(k) for k, v in slots.items() if v[1] is not None)
        table = bytearray(8192)
        for i in range(511):
            table[16 + 16 * i + 15] = 0xFF
        for k, (status, idx) in slots.items():
            table[16 + 16 * int(k) + 15] = status
            if idx is not None:
                table[16 + 16 * int(k):16 + 16 * int(k) + 12] = (surfs[idx].volumes[0].title + b'\0' * 12)[:12]
        body = bytearray((hi + 1) * 204800)
        out = []
        for k, (status, idx) in slots.items():
            if idx is not None:
                o = int(k) * 204800
                body[o:o + 204800] = rend[idx]
                out.append((idx, 80, 10, (lambda b: (lambda lba: b + lba * 256))(8192 + o)))
        return bytes(table) + bytes(body), out, rend

    def expected_drives(self, image, policy):
        """drive number -> surface index (None = unformatted)."""
        ext = image['ext']
        if ext in ('ssd', 'sdd'):
            n = len(image['surfaces'])
            return {0: 0} if n == 1 else ({0: 0, 2: 1} if policy == 'physical' else {0: 0, 1: 1})
        if ext in ('dsd', 'ddd'):
            return {0: 0, 2: 1} if policy == 'physical' else {0: 0, 1: 1}
        out = {}
        for sl in range(511):
            ent = image['slots'].get(str(sl))
            d = sl * 2 if policy == 'physical' else sl
            out[d] = ent[1] if ent else None
        return out

    def run_case(self, case, ctx):
        out = Outcome()
        try:
            self._run(case, ctx, out)
        except WorkerDied as wd:
            out.violate('C04.crash', 'library code crashed (exit %r): %s' % (wd.code, wd.stderr[-300:].decode('latin-1')), {'kind': case['kind'], 'what': 'crash'}, case)
        return out

    def _run(self, case, ctx, out):
        image = case['image']
        ext = image['ext']
        data, lay, rend = self.layout(image)
        fk = case['fault']
        size = len(data)
        eof_at = nth = touch = -1
        if fk:
            m = case['fmode']
            if m == 'start':
                pos = case['fpos'] % 1100
            elif m == 'table' and ext == 'mmb':
                pos = case['fpos'] % 8192
            elif m == 'sector-boundary':
                pos = (case['fpos'] * 7919 % max(1, size // 256)) * 256
            elif m == 'mid-sector':
                pos = (case['fpos'] * 7919 % max(1, size // 256)) * 256 + 1 + case['fpos'] % 255
            else:
                pos = (case['fpos'] * 104729) % max(1, size)
            if fk == 'eof':
                eof_at = pos
            elif fk == 'ioerror_touch':
                touch = pos
            else:
                nth = 1 + case['fpos'] % 40
        e2 = ctx.e2
        j = e2.open(ext, data, eof_at=eof_at, ioerror_nth=nth, ioerror_touch=touch, policy=case['policy'])
        out.runs += 1
        out.steps += 1
        desc = {'kind': case['kind'], 'ext': ext, 'fault': fk}
        geo = '%dx%d' % (lay[0][1], lay[0][2]) if lay else '-'
        what = '%s (%s, %d surface(s), %d bytes)%s' % (ext, geo, len(lay), size, '' if not fk else ' with %s at %d' % (fk, max(eof_at, nth, touch)))
        if not j['ok']:
            if fk:
                out.fault(fk, True)
                out.probe('open-failed-under-fault')
                out.sig(case['kind'], ext, geo, fk, case['fmode'], 'open-failed')
                return
            out.sig(case['kind'], ext, geo, '-', '-', 'rejected')
            if any(sf['variant'] == 'blank' for sf in image['surfaces']):
                # the probing rules want a catalogue on both sides of an interleaved image; an image with an
                # unformatted side may be refused.  What must not happen is accepting it and mapping it wrongly.
                out.probe('image-with-unformatted-side-rejected')
                return
            out.violate('C04.a', '%s: a well-formed image was rejected: %s' % (what, j['error'][:160]), dict(desc, what='rejected'), case)
            return
        drives = {d['n']: d for d in j['drives']}
        exp = self.expected_drives(image, case['policy'])
        verdict = 'ok'
        fired = j.get('faults_fired', 0)
        # ---- attachment
        if ext == 'mmb':
            for dn, si in list(exp.items()):
                d = drives.get(dn)
                if d is None:
                    out.violate('C04.c', '%s: MMB slot for drive %d is not attached at all' % (what, dn), dict(desc, what='mmb-missing'), case)
                    return
                if si is None and d['format'] is not None and not fk:
                    out.violate('C04.c', '%s: MMB slot on drive %d is marked unformatted/invalid but is reported as formatted (%s)' % (what, dn, d['format']),
                                dict(desc, what='mmb-status'), case)
        else:
            want_n = len(image['surfaces'])
            got_n = len(drives)
            if got_n != want_n and not fk:
                out.sig(case['kind'], ext, geo, '-', '-', 'surfaces-%d-of-%d' % (got_n, want_n))
                out.violate('C04.d', '%s: the image holds %d surfaces but %d drive(s) were attached (%s)' % (what, want_n, got_n, sorted(drives)),
                            dict(desc, what='surface-not-attached'), case)
                if got_n == 0:
                    return
        # ---- sector contents
        for dn, si in sorted(exp.items()):
            if si is None or dn not in drives:
                continue
            d = drives[dn]
            ent = [x for x in lay if x[0] == si]
            if not ent:
                continue
            _, tracks, spt, off = ent[0]
            g = d['geometry']
            if (g[0], g[2]) != (tracks, spt):
                if fk:
                    out.probe('geometry-differs-under-fault')
                    continue
                out.skip('ambiguous-geometry')
                continue
            r = e2.readall(dn)
            out.steps += 1
            fired += r.get('faults_fired', 0)
            n = tracks * spt
            for lba in range(min(n, len(r['sectors']))):
                sec = r['sectors'][lba]
                o = off(lba)
                want = data[o:o + 256]
                cut = eof_at if fk == 'eof' else None
                if sec is None or sec == 'E':
                    if not fk:
                        verdict = 'missing'
                        out.violate('C04.a', '%s: drive %d track %d sector %d could not be read although the medium is intact' % (what, dn, lba // spt, lba % spt),
                                    dict(desc, what='unreadable'), case)
                        break
                    if fk == 'eof' and o + 256 <= cut:
                        verdict = 'missing-before-cut'
                        out.violate('C04.e', '%s: drive %d track %d sector %d lies wholly before the end of the medium (offset %d) but could not be read'
                                    % (what, dn, lba // spt, lba % spt, o), dict(desc, what='lost-before-cut'), case)
                        break
                    continue
                if fk == 'eof' and o + 256 > cut:
                    verdict = 'data-past-cut'
                    tags = dd.parse_tags(sec)[:1]
                    out.violate('C04.b', '%s: drive %d track %d sector %d lies beyond the end of the medium (offset %d) yet data was returned (tags %s)'
                                % (what, dn, lba // spt, lba % spt, o, tags), dict(desc, what='data-past-end'), case)
                    break
                if sec != want:
                    verdict = 'wrong-data'
                    tags = dd.parse_tags(sec)[:1]
                    out.violate('C04.a' if not fk else 'C04.b', '%s: drive %d track %d sector %d is not the 256 bytes at offset %d (it carries tags %s; expected image 5 side %d sector %d)'
                                % (what, dn, lba // spt, lba % spt, o, tags, dd.Surface.from_json(image['surfaces'][si]).side, lba), dict(desc, what='wrong-offset'), case)
                    break
            # reads beyond the end of the surface must fail
            r2 = e2.readall(dn, limit=n + 3)
            extra = r2['sectors'][n:]
            if any(isinstance(x, (bytes, bytearray)) for x in extra):
                out.violate('C04.b', '%s: drive %d returned data for a sector beyond the end of the surface (%d sectors)' % (what, dn, n), dict(desc, what='beyond-surface'), case)
        if fk:
            out.fault(fk, fired > 0)
        out.sig(case['kind'], ext, geo, fk or '-', case['fmode'] if fk else '-', verdict)
        if case['spot'] and not fk and ext != 'mmb':
            self.spot(ctx, out, case, image, data, lay, exp, what, desc, drives)

    def spot(self, ctx, out, case, image, data, lay, exp, what, desc, drives):
        sb = ctx.sb
        name = 'img.' + image['ext']
        sb.reset({name: data})
        dn, si = sorted(exp.items())[case['spot_pick'] % len(exp)]
        ent = [x for x in lay if x[0] == si][0]
        _, tracks, spt, off = ent
        g = drives.get(dn, {}).get('geometry')
        if not g or (g[0], g[2]) != (tracks, spt):
            # same rule as the sector-contents pass: an image whose geometry the probing rules resolve differently
            # (identification is C13's subject) has no agreed (track, sector) numbering to compare
            out.skip('ambiguous-geometry')
            return
        t = case['spot_pick'] % tracks
        s = (case['spot_pick'] // 3) % spt
        # numbers are decimal however they are written: some are spelled with leading zeros
        zp = (lambda n: '%0*d' % (len(str(n)) + 1 + pick_z % 2, n)) if (case['spot_pick'] // 5) % 3 == 0 else str
        pick_z = case['spot_pick'] // 11
        argv = ['dfs', '--file', name] + (['--drive-first'] if case['policy'] == 'first' else []) + ['dump-sector', zp(dn), zp(t), zp(s)]
        # --drive-first must precede --file to take effect
        if case['policy'] == 'first':
            argv = ['dfs', '--drive-first', '--file', name, 'dump-sector', zp(dn), zp(t), zp(s)]
        r = ctx.sk.run(sb, ctx.exe('rel', 'dfs'), argv)
        out.add_run(r)
        out.probe('e1-dump-sector-spot-checks')
        if r.code != 0:
            if len(exp) != len(image['surfaces']) or True:
                out.probe('e1-spot-nonzero')
            return
        got = bytearray()
        for ln in r['stdout'].decode('latin-1').split('\n'):
            parts = ln.split(' ')
            if len(parts) >= 9:
                for x in parts[1:9]:
                    if len(x) == 2 and x != '**':
                        got.append(int(x, 16))
        o = off(t * spt + s)
        if bytes(got) != data[o:o + 256]:
            out.violate('C04.a', '%s: dfs dump-sector %d %d %d does not show the bytes at offset %d' % (what, dn, t, s, o), dict(desc, what='spot'), case)
        # a (track, sector) that does not exist on the surface has no documented offset: dump-sector must refuse
        # it, not show some other sector
        pick = case['spot_pick']
        bt, bs = [(t, spt), (tracks, 0), (tracks - 1, spt), (t, -1), (-1, s), (t, spt + 1 + pick % 7), (tracks, spt - 1)][(pick // 7) % 7]
        if bt == 0 and bs < 0:
            bt = 1
        argv2 = argv[:-3] + [str(dn), str(bt), str(bs)]
        r = ctx.sk.run(sb, ctx.exe('rel', 'dfs'), argv2)
        out.add_run(r)
        out.probe('e1-dump-sector-nonexistent-address')
        if r.code == 0 and b'000000 ' in r['stdout']:
            out.violate('C04.c', '%s: dfs dump-sector %d %d %d (surface has %d tracks of %d sectors) exits 0 and shows a sector' % (what, dn, bt, bs, tracks, spt),
                        dict(desc, what='nonexistent-address:' + ('neg' if min(bt, bs) < 0 else 'sector' if bt < tracks else 'track')), case)

    def group_key(self, v):
        d = v['desc']
        return (d.get('kind'), d.get('what'), d.get('fault'))

    def shrink(self, case, clause):
        if case['fault']:
            yield dict(case, fault=None)
        if case.get('spot'):
            yield dict(case, spot=False)
        image = case['image']
        if image['ext'] == 'mmb' and len(image['slots']) > 1:
            for k in sorted(image['slots']):
                if image['slots'][k][1] is None:
                    s2 = {x: v for x, v in image['slots'].items() if x != k}
                    yield dict(case, image=dict(image, slots=s2))
        for si, surf in enumerate(image['surfaces']):
            for vi, v in enumerate(surf['volumes']):
                if v['files']:
                    v2 = dict(v, files=[])
                    s2 = dict(surf, volumes=surf['volumes'][:vi] + [v2] + surf['volumes'][vi + 1:])
                    yield dict(case, image=dict(image, surfaces=image['surfaces'][:si] + [s2] + image['surfaces'][si + 1:]))


CHECK = C04()
