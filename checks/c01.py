"""C01 — dfs delivers each catalogued file's bytes exactly.  Engine E1: the
reference disc model is the oracle; benign I/O schedules must be invisible and
read faults / truncated media may only make the run fail."""

from sim.orch import CheckBase, Outcome
from sim import dfswork
from sim.models import dfsdisc as dd


def render_type(body):
    return body.replace(b'\r', b'\n')


def render_list(body):
    out = bytearray()
    n = 1
    start = True
    for b in body:
        if start:
            out += b'%4d ' % n
            n += 1
            start = False
        if b == 0x0D:
            out += b'\n'
            start = True
        else:
            out.append(b)
    return bytes(out)


def render_dump(body):
    out = bytearray()
    pos = 0
    n = len(body)
    while pos < n:
        row = body[pos:pos + 8]
        out += b'%06d' % pos
        for i in range(8):
            out += (b' %02X' % row[i]) if i < len(row) else b' **'
        out += b' '
        for i in range(8):
            c = row[i] if i < len(row) else 0x2E
            out.append(c if 0x20 <= c <= 0x7E else 0x2E)
        out += b'\n'
        if len(row) < 8:
            break
        pos += 8
    return bytes(out)


RENDER = {'type-binary': lambda b: b, 'type': render_type, 'list': render_list, 'dump': render_dump}


class C01(CheckBase):
    id = 'C01'
    level = 'exploration'
    engine = 'E1'
    builds = ['rel']
    rule = ('cases: seeded well-formed discs (Acorn DFS, Watford 62-file, Opus DDOS multi-volume; 35/40/80 tracks x 10/16/18 '
            'sectors; 0..31/62 files; packed/gapped/top-of-disc placements incl. start sectors needing the high bits, '
            'zero-length files, lengths not multiple of 256 and > 64 KiB) in .ssd/.sdd/.dsd/.ddd containers; every catalogued '
            'file of a sampled volume is read with type --binary / type / list / dump through a seeded qualification form '
            '(NAME, D.NAME, :n.D.NAME, --dir, --drive, Opus volume letters) and each disc is extracted with extract-files. '
            'zero-fault oracle: the reference disc model. fault configurations: benign read chunking on the image and short '
            'writes on stdout (must be invisible); read error at an offset the fault-free run read, image truncated inside or '
            'before the body (result equals the model or the run fails with a diagnostic; a failing type --binary prints only '
            'a prefix of the body). distinct non-trivial = distinct (variant, geometry, container, command, name form, fault '
            'kind delivered, exit class, event-log hash)')
    assumptions = [
        'the reference disc model (sim/models/dfsdisc.py) lays out catalogues as the DFS/Watford/Opus documentation describes; it was cross-validated against the SUT on 400 seeded discs',
        'renderings: type = CR->LF; list = "%4d " line numbers from 1, CR ends a line; dump = 6-digit decimal offset, 8 bytes per row as two upper-case hex digits, ** past the end, printable ASCII or "."',
    ]
    real_components = ['dfs binary (RelWithDebInfo)', 'libstdc++ ifstream', 'kernel tmpfs for un-faulted calls']
    stubbed_components = ['results of faulted read()/write() calls (decided by simkernel)', 'medium truncation (static)']

    def budget(self, tier):
        return 600 if tier == 'quick' else 8000

    def time_cap(self, tier):
        return 600 if tier == 'quick' else 5400

    def gen_manylines(self, rng, tier):
        """One large file that is nearly all line ends: list numbers its lines far past 9999 (where the
        documented 4-column number field overflows), type turns every byte into a newline."""
        tracks, spt = rng.choice([(40, 10), (80, 10), (40, 18)])
        n = tracks * spt
        unit = rng.choice([b'\r', b'\r', b'x\r', b'\r\n'])
        nlines = rng.choice([9999, 10000, 10001, 12345, 20000])
        length = min(nlines * len(unit) + rng.choice([0, 0, 1, 5]), (n - 2) * 256, 0x3FFFF)
        start = rng.choice([2, 3, n - (length + 255) // 256])
        f = dd.FileEnt(ord('$'), b'MANY', False, 0x1900, 0x8023, length, start)
        v = dd.Volume(None, b'LINES', 1, 0, n, [f], 0, 0)
        s = dd.Surface('acorn', tracks, spt, [v], 1, 0, rng.below(65536))
        body = (unit * (length // len(unit) + 1))[:length]
        body += bytes(-len(body) % 256)
        j = s.to_json()
        for k in range(0, len(body), 256):
            j['overrides'][str(start + k // 256)] = body[k:k + 256]
        image = {'ext': 'ssd' if spt == 10 else 'sdd', 'surfaces': [j]}
        return {'image': image, 'surface': 0, 'volume': 0, 'fault': rng.weighted([(5, None), (1, 'wshort')]), 'seed': rng.below(1 << 30),
                'maxfiles': 10, 'extract': False, 'fpos': rng.below(1000), 'chunk': 4096,
                'only_cmd': rng.choice(['list', 'list', 'type'])}

    def gen_case(self, rng, tier, index):
        if rng.chance(0.03):
            return self.gen_manylines(rng, tier)
        image = dfswork.gen_image(rng, kind=rng.weighted([(6, 'single'), (3, 'interleaved'), (2, 'two-sided')]))
        if rng.chance(0.04):
            # the largest discs there are: 80 tracks of 16 or 18 sectors, Watford format (up to 62 files)
            image = {'ext': 'sdd', 'surfaces': [dd.gen_surface(rng, variant='watford', geom=rng.choice([(80, 18), (80, 18), (80, 16)]), img_id=1).to_json()]}
        if len(image['surfaces']) == 1 and image['ext'] in ('ssd', 'sdd'):
            sj = image['surfaces'][0]
            if sj['variant'] == 'watford' and sj['tracks'] * sj['spt'] > 1023 and rng.chance(0.6):
                # an 80-track double-density Watford disc has 1280 or 1440 sectors: Watford DDFS records the true
                # figure using bit 10 of the sector count (file start sectors still have 10 bits).  Only as the one
                # surface of its image: the probing rules for a *second* side validate its catalogue with a 10-bit
                # count (identification is C13's subject), and the Acorn format has no such bit
                sj['volumes'][0]['total'] = sj['tracks'] * sj['spt']
        si = rng.below(len(image['surfaces']))
        s = dd.Surface.from_json(image['surfaces'][si])
        vi = rng.below(len(s.volumes))
        # arbitrary body bytes: besides the tagged filler, give some files a body with a definite shape
        # (text with CRs, runs of CR, high-bit bytes, NULs, a trailing CR or none)
        nover = 0
        for v in image['surfaces'][si]['volumes'][vi:vi + 1]:
            for f in v['files']:
                if f['length'] and rng.chance(0.25) and nover < 6:
                    nover += 1
                    shape = rng.choice(['text', 'crs', 'high', 'nul', 'nocr', 'ff'])
                    n = min(f['length'], 256 * 3)
                    if shape == 'text':
                        body = (b'10 PRINT "HELLO"\r20 GOTO 10\r' * 40)[:n]
                    elif shape == 'crs':
                        body = b'\r' * n
                    elif shape == 'high':
                        body = bytes((0x80 + i) & 0xFF for i in range(n))
                    elif shape == 'nul':
                        body = bytes(n)
                    elif shape == 'nocr':
                        body = (b'no line terminator at all ' * 40)[:n]
                    else:
                        body = b'\xff' * n
                    base = (v['origin'] + f['start']) * 256
                    for k in range(0, n, 256):
                        lba = (base + k) // 256
                        old_sec = image['surfaces'][si]['overrides'].get(str(lba))
                        image['surfaces'][si]['overrides'][str(lba)] = body[k:k + 256]
        fault = rng.weighted([(8, None), (2, 'rchunk'), (2, 'wshort'), (3, 'rfail'), (3, 'truncate')])
        return {'image': image, 'surface': si, 'volume': vi, 'fault': fault, 'seed': rng.below(1 << 30),
                'maxfiles': 10 if tier == 'quick' else 40, 'extract': rng.chance(0.5), 'fpos': rng.below(1000),
                'chunk': rng.choice([1, 7, 255, 256, 257, 4096])}

    def run_case(self, case, ctx):
        from sim.prng import Rng
        out = Outcome()
        sb = ctx.sb
        image = case['image']
        name = 'img.' + image['ext']
        data = dfswork.render_image(image)
        si = case['surface']
        s = dd.Surface.from_json(image['surfaces'][si])
        rendered = s.render()
        vol = s.volumes[case['volume']]
        drive = dict((i, d) for d, i in dfswork.image_drives(image))[si]
        rng = Rng.derive(case['seed'], 'c01')
        exe = ctx.exe('rel', 'dfs')
        files = [f for f in vol.files if dfswork.safe_for_cmdline(f)]
        if len(files) > case['maxfiles']:
            files = rng.sample(files, case['maxfiles'])
        sb.reset({name: data, 'out': None})
        fk = case['fault']
        geo = '%s/%dx%d/%s' % (s.variant, s.tracks, s.spt, image['ext'])
        for f in files:
            body = s.body(rendered, vol, f)
            cmdk = rng.choice(['type-binary', 'type-binary', 'type', 'list', 'dump'])
            cmdk = case.get('only_cmd') or cmdk
            form = rng.choice(['full', 'dir', 'bare', 'ctx'])
            if form == 'bare' and f.name.startswith(b'-'):
                form = 'dir'      # a bare argument starting with '-' is an option by ordinary command-line rules
            g = []
            lab = vol.label or ''
            if lab == 'A' and rng.chance(0.5):
                lab = ''      # on an Opus DDOS disc, drive n means volume nA
            nm = f.name.decode('latin-1')
            d = chr(f.dir)
            if form == 'full':
                arg = ':%d%s.%s.%s' % (drive, lab, d, nm)
            elif form == 'dir':
                arg = '%s.%s' % (d, nm)
                g = ['--drive', '%d%s' % (drive, lab)]
            elif form == 'bare':
                arg = nm if len(nm) <= 2 or nm[1] != '.' else '%s.%s' % (d, nm)
                g = ['--drive', '%d%s' % (drive, lab), '--dir', d]
                if len(nm) <= 2:
                    pass
            else:
                arg = ':%d%s.%s' % (drive, lab, nm) if not (len(nm) > 2 and nm[1] == '.') else ':%d%s.%s.%s' % (drive, lab, d, nm)
                g = ['--dir', d]
            # the presentation style has no bearing on which file is read or how type/list/dump render it; it is one
            # more global option, given before or after the ones that set the context
            if rng.chance(0.25):
                k = 2 * rng.below(len(g) // 2 + 1)
                g = g[:k] + ['--ui', rng.choice(['acorn', 'watford', 'opus'])] + g[k:]
            cmd = {'type-binary': ['type', '--binary', arg], 'type': ['type', arg], 'list': ['list', arg], 'dump': ['dump', arg]}[cmdk]
            argv = ['dfs', '--file', name] + g + cmd
            want = RENDER[cmdk](body)
            self.one(ctx, out, case, sb, exe, argv, want, body, cmdk, form, geo, name, data, f, fk, rng)
        if case['extract'] and vol.files:
            self.extract(ctx, out, case, sb, exe, name, s, rendered, vol, drive, geo)
        return out

    def one(self, ctx, out, case, sb, exe, argv, want, body, cmdk, form, geo, name, data, f, fk, rng):
        desc = {'command': cmdk, 'form': form, 'fault': fk}
        what = 'dfs %s (%s; file start %d, %d bytes)' % (' '.join(argv[1:]), geo, f.start, f.length)
        faults = []
        trunc = None
        if fk == 'rchunk':
            faults = [{'op': 'rchunk', 'target': 'in:' + name, 'seed': rng.below(1 << 30), 'max': case['chunk']}]
        elif fk == 'wshort':
            faults = [{'op': 'wshort', 'target': 'stdout', 'nth': 1, 'len': rng.choice([1, 100, 4095])}]
        ref = ctx.sk.run(sb, exe, argv) if fk in ('rfail', 'truncate') else None
        if ref is not None:
            out.add_run(ref, ref=True)
            rr = ref['reads'].get(name, {}).get('ranges', [])
            if fk == 'rfail' and rr:
                a, b = rr[rng.below(len(rr))]
                faults = [{'op': 'rfail', 'target': 'in:' + name, 'errno': 'EIO', 'at': a + rng.below(max(1, b - a))}]
            elif fk == 'truncate' and rr and geo.startswith('opus'):
                # the documented identification of an Opus DDOS disc requires the image to be as long as
                # sector 16 says; a shortened image is *defined* not to be Opus DDOS, so nothing about the
                # original disc's files can be demanded of it
                out.skip('truncate-not-applicable-to-opus')
                return
            elif fk == 'truncate' and rr:
                a, b = rr[-1]
                trunc = max(0, b - 1 - rng.below(min(b, 600)))
        if trunc is not None:
            sb.populate({name: data[:trunc]})
        r = ctx.sk.run(sb, exe, argv, faults=faults, steps=200000 + 40 * len(data) if fk == 'rchunk' else 200000, wall_ms=60000 if fk == 'rchunk' else 10000)
        if trunc is not None:
            sb.populate({name: data})
        out.add_run(r)
        delivered = (r.fired() > 0) or trunc is not None
        if fk:
            out.fault(fk, delivered)
        out.sig(geo, cmdk, form, fk if delivered else '-', r.exit_class(), r['log_hash'])
        benign = fk in (None, 'rchunk', 'wshort') or not delivered
        if benign:
            if r.code != 0:
                out.violate('C01.a', '%s%s: failed with %s: %s' % (what, (' under ' + fk) if fk else '', r.exit_class(), r['stderr'][-200:].decode('latin-1')),
                            dict(desc, what='failed'), self.atom(case))
            elif r['stdout'] != want:
                n = 0
                while n < min(len(want), len(r['stdout'])) and want[n] == r['stdout'][n]:
                    n += 1
                tags = dd.parse_tags(r['stdout'][(n // 16) * 16:])[:1] if cmdk in ('type-binary',) else []
                out.violate('C01.a' if not fk else 'C01.b', '%s%s: output differs from the recorded bytes at output byte %d of %d (got %d bytes%s)' % (
                    what, (' under ' + fk) if fk else '', n, len(want), len(r['stdout']), ('; foreign tag %s' % tags) if tags else ''),
                    dict(desc, what='wrong-bytes'), self.atom(case))
            return
        # fault delivered: exact, or fails with a diagnostic; never other data
        if r.code is None:
            out.probe('abnormal-under-fault(C07)')
            return
        if r.code == 0:
            if r['stdout'] != want:
                out.violate('C01.c', '%s with %s: exit status 0 but the output is not the recorded bytes' % (what, fk), dict(desc, what='silent-wrong'), self.atom(case))
        else:
            if not r['stderr']:
                out.violate('C01.c', '%s with %s: exit status %d without a diagnostic' % (what, fk, r.code), dict(desc, what='silent-fail'), self.atom(case))
            if cmdk == 'type-binary' and not want.startswith(r['stdout']):
                out.violate('C01.c', '%s with %s: the failing run printed bytes that are not a prefix of the file' % (what, fk), dict(desc, what='foreign-on-failure'), self.atom(case))

    def extract(self, ctx, out, case, sb, exe, name, s, rendered, vol, drive, geo):
        sb.remove('out')
        sb.populate({'out': None})
        lab = vol.label or ''
        if lab == 'A' and case['seed'] % 2:
            lab = ''
        argv = ['dfs', '--file', name, '--drive', '%d%s' % (drive, lab), 'extract-files', 'out']
        r = ctx.sk.run(sb, exe, argv)
        out.add_run(r)
        out.sig(geo, 'extract-files', '-', '-', r.exit_class(), r['log_hash'])
        desc = {'command': 'extract-files', 'form': '-', 'fault': None}
        what = 'dfs %s (%s, %d files)' % (' '.join(argv[1:]), geo, len(vol.files))
        # two entries may map to the same host file name only if their DFS names are equal (they are not)
        if r.code != 0:
            out.violate('C01.d', '%s: failed with %s: %s' % (what, r.exit_class(), r['stderr'][-200:].decode('latin-1')), dict(desc, what='failed'), self.atom(case))
            return
        import os
        for f in vol.files:
            nm = f.name.decode('latin-1')
            host = nm if f.dir == ord('$') else '%s.%s' % (chr(f.dir), nm)
            host = host.replace('/', '%2F')
            p = os.path.join(sb.root, 'out', host)
            body = s.body(rendered, vol, f)
            try:
                with open(p, 'rb') as fh:
                    got = fh.read()
            except OSError:
                out.violate('C01.d', '%s: no file %r was created for catalogue entry %s.%s' % (what, host, chr(f.dir), nm), dict(desc, what='missing'), self.atom(case))
                return
            if got != body:
                out.violate('C01.d', '%s: extracted file %r has %d bytes, the catalogue entry has %d, contents %s' % (
                    what, host, len(got), len(body), 'equal prefix' if body.startswith(got) or got.startswith(body) else 'differ'),
                    dict(desc, what='wrong-bytes'), self.atom(case))
                return

    def atom(self, case):
        return case

    def group_key(self, v):
        d = v['desc']
        return (d.get('command'), d.get('what'), d.get('fault'))

    def shrink(self, case, clause):
        if case['fault']:
            yield dict(case, fault=None)
        if case['extract']:
            yield dict(case, extract=False)
        image = case['image']
        si = case['surface']
        surf = image['surfaces'][si]
        vi = case['volume']
        v = surf['volumes'][vi]
        files = v['files']
        for i in range(len(files) - 1, -1, -1):
            v2 = dict(v, files=files[:i] + files[i + 1:])
            s2 = dict(surf, volumes=surf['volumes'][:vi] + [v2] + surf['volumes'][vi + 1:])
            yield dict(case, image=dict(image, surfaces=image['surfaces'][:si] + [s2] + image['surfaces'][si + 1:]))


CHECK = C01()
