"""C08 — bbcbasic_to_text fails cleanly on arbitrary input files and options.
Engine E1 with ASan/UBSan, MSan and plain builds."""

import re

from sim.orch import CheckBase, Outcome
from sim.models import basicprog as bp
from checks import c09

BUILDS = [(3, ('asan', 'bbcbasic_to_text')), (2, ('asan-dbg', 'bbcbasic_to_text')), (3, ('msan-basic', 'bbcbasic_to_text')),
          (1, ('msan-basic', 'bbcbasic_to_text-dbg')), (1, ('rel', 'bbcbasic_to_text')), (1, ('dbg', 'bbcbasic_to_text'))]


def mutate(rng, data, ops):
    d = bytearray(data)
    for op in ops:
        k = op['k']
        if not d and k not in ('insert', 'append'):
            continue
        pos = (op['pos'] * len(d)) // 1000 if d else 0
        pos = min(pos, max(0, len(d) - 1))
        if k == 'flip':
            d[pos] ^= 1 << op['bit']
        elif k == 'set':
            d[pos] = op['v']
        elif k == 'insert':
            d[pos:pos] = bytes(op['bytes'])
        elif k == 'append':
            d += bytes(op['bytes'])
        elif k == 'delete':
            del d[pos:pos + op['n']]
        elif k == 'truncate':
            del d[pos:]
    return bytes(d)


class C08(CheckBase):
    id = 'C08'
    level = 'exploration'
    engine = 'E1'
    builds = ['rel', 'dbg', 'asan', 'asan-dbg', 'msan-basic']
    rule = ('cases: 1-3 inputs per invocation, each a seeded valid program under medium damage (bit flips, byte '
            'substitution with framing-relevant values, insertion, deletion, truncation), random bytes up to 4 KiB, an '
            'empty file or a missing file; x dialect (10 names, none, unknown, help) x --listo (0-7, none, invalid) x '
            'unknown options x file/stdin(file|pipe) delivery; dynamic faults: open failure, read error at an offset, '
            'benign read chunking, stdout write failure; x build (ASan+UBSan NDEBUG, ASan+UBSan assertions on, MSan NDEBUG, '
            'MSan assertions on, plain NDEBUG, plain assertions on). distinct non-trivial = distinct (build, option shape, '
            'input kinds, fault kind, exit class, stderr-empty?, event-log hash)')
    assumptions = [
        'ASan/UBSan/MSan reports are recognised by exit code 77 or their banner on stderr',
        'step limit 100k / wall limit 5 s are >1000x a typical run (about 40 steps, 3 ms)',
    ]
    real_components = ['bbcbasic_to_text built from /repo working tree in six configurations', 'glibc stdio', 'kernel tmpfs for un-faulted calls']
    stubbed_components = ['results of faulted open/read/write calls (decided by simkernel)']

    def budget(self, tier):
        return 12000 if tier == 'quick' else 120000

    def time_cap(self, tier):
        return 600 if tier == 'quick' else 5400

    def gen_input(self, rng, dialect_for_gen):
        kind = rng.weighted([(8, 'mutated'), (3, 'random'), (1, 'empty'), (1, 'missing'), (2, 'valid'), (4, 'aimed'), (1, 'deep')])
        ent = {'kind': kind}
        if kind == 'deep':
            # a well-framed program whose loop nesting runs far past anything a listing option expects: hundreds of
            # unclosed FOR/REPEAT (indent grows without bound) or of unmatched NEXT/UNTIL (indent goes negative)
            levels = rng.choice([100, 127, 128, 129, 200, 255, 256, 257, 300, 1000, 5000])
            tok = rng.choice([b'\xe3', b'\xf5', b'\xe3', b'\xed', b'\xfd'])
            per = rng.choice([1, 5, 50, 250])
            lines = []
            no = 10
            left = levels
            while left > 0 and len(lines) < 600:
                k = min(per, left)
                lines.append([no, (tok + (b' ' if rng.chance(0.3) else b'')) * k if per < 100 else tok * k])
                left -= k
                no += 10
            if rng.chance(0.5):
                lines.append([no, b'\xf1"X"'])
            ent['kind'] = 'valid'
            ent['dialect'] = dialect_for_gen
            ent['lines'] = [[n, p[:251]] for n, p in lines]
            return ent
        if kind == 'aimed':
            # one framing- or token-level corruption aimed the way C09 aims them (operand cut off by end of line,
            # bad length byte, unassigned extension code, ...): each is a distinct error path with its own diagnostic
            f = c09.CHECK.gen_file(rng, dialect_for_gen, small=rng.chance(0.6))
            ent['dialect'] = dialect_for_gen
            ent['lines'] = f['lines']
            ent['mut'] = c09.CHECK.gen_corruption(rng, f)
            return ent
        if kind in ('mutated', 'valid'):
            lines = bp.gen_program(rng, dialect_for_gen, nlines=rng.weighted([(4, rng.randint(1, 6)), (2, rng.randint(6, 40))]))
            ent['dialect'] = dialect_for_gen
            ent['lines'] = [[no, p] for no, p in lines]
            if kind == 'mutated':
                ops = []
                for _ in range(rng.weighted([(5, 1), (3, 2), (2, rng.randint(3, 6))])):
                    k = rng.weighted([(4, 'flip'), (5, 'set'), (2, 'insert'), (2, 'delete'), (3, 'truncate'), (1, 'append')])
                    op = {'k': k, 'pos': rng.below(1000)}
                    if k == 'flip':
                        op['bit'] = rng.below(8)
                    elif k == 'set':
                        op['v'] = rng.choice([0, 1, 2, 3, 4, 5, 0x0D, 0x22, 0x8D, 0xC6, 0xC7, 0xC8, 0xFF, 0xFE, 0x7F, 0x80, rng.below(256)])
                    elif k in ('insert', 'append'):
                        op['bytes'] = list(rng.bytes(rng.randint(1, 8))) if rng.chance(0.6) else [rng.choice([0x0D, 0xFF, 0x00, 0x8D, 0xC8])] * rng.randint(1, 4)
                    elif k == 'delete':
                        op['n'] = rng.randint(1, 6)
                    ops.append(op)
                ent['ops'] = ops
        elif kind == 'random':
            n = rng.weighted([(3, rng.randint(1, 16)), (4, rng.randint(16, 400)), (1, rng.randint(400, 4096))])
            style = rng.weighted([(3, 'uniform'), (2, 'framed'), (1, 'ff'), (1, 'zero')])
            if style == 'uniform':
                data = rng.bytes(n)
            elif style == 'framed':
                # random bytes that start like a program in one of the two framings
                data = (b'\x0d' + rng.bytes(2) + bytes([rng.choice([0, 3, 4, 5, 255, rng.below(256)])]) if rng.chance(0.5)
                        else bytes([rng.choice([0, 1, 2, 3, 4, 255, rng.below(256)])]) + rng.bytes(2)) + rng.bytes(n)
            elif style == 'ff':
                data = b'\xff' * n
            else:
                data = bytes(n)
            ent['data'] = data
        return ent

    def gen_case(self, rng, tier, index):
        gd = rng.choice(bp.DIALECT_NAMES)
        gd = rng.choice(bp.DIALECT_NAMES + ['PDP11', 'ARM', 'Mac']) if rng.chance(0.3) else gd
        dialect = rng.weighted([(8, gd), (3, None), (2, rng.choice(bp.DIALECT_NAMES)), (1, 'bogus'), (1, 'help'), (1, '')])
        listo = rng.weighted([(4, None), (5, str(rng.below(8))), (2, rng.choice(['8', '-1', 'x', '7x', '', '99999999999999999999', ' 3', '0x3']))])
        extra = rng.weighted([(12, None), (1, '--frob'), (1, '-x'), (1, '--help'), (1, '--dialect'), (1, '--listo'), (1, '-h'), (1, '-l'), (1, '-d'), (1, '-D'), (1, '--dump-token-maps'), (1, '--dump-token-maps=-'), (1, '--dump-token-maps=nonexistent-dir/x'), (1, '--dial'), (1, '--list=3')])
        ninputs = rng.weighted([(6, 1), (2, 2), (1, 3), (1, 0)])
        inputs = [self.gen_input(rng, gd) for _ in range(ninputs)]
        for i, ent in enumerate(inputs):
            if rng.chance(0.12):
                # file names are data too (they end up in diagnostics): printf conversions, blanks, control characters
                ent['name'] = rng.choice(['100%%sure%d.bas', '50%%n%d.bbc', '%%s%%s%%s%%s%%s%%s%d', 'a b%d.bbc', 'pro\tg%d', '%%d%d', '%%%%%d', 'x%d' + 'y' * 200, '%%c%%c%d', '%%-5000d%d',
                                          # longer than any path can be: the open fails, the name still has to be reported
                                          'p%d' + 'q' * 4300, 'p%d/' + 'r/' * 3000 + 's', 'p%d' + 't' * 70000]) % i
        delivery = rng.weighted([(6, 'file'), (2, 'stdin_file'), (2, 'stdin_pipe')]) if ninputs >= 1 else 'file'
        fault = rng.weighted([(10, None), (1, 'openfail'), (2, 'rfail'), (2, 'rchunk'), (1, 'stdout_wfail')])
        case = {'dialect': dialect, 'listo': listo, 'extra': extra, 'inputs': inputs, 'delivery': delivery, 'fault': fault,
                'build': list(rng.weighted(BUILDS)), 'fpos': rng.below(1000), 'errno': rng.choice(['EACCES', 'EMFILE', 'EISDIR', 'EIO', 'ENOMEM']),
                'chunk': {'seed': rng.below(1 << 30), 'max': rng.choice([1, 2, 3, 17, 255])},
                'opt_style': rng.choice(['sep', 'eq', 'short', 'short-attached']), 'dashdash': rng.chance(0.05)}
        return case

    def materialise(self, ent):
        if ent['kind'] == 'missing':
            return None
        if ent['kind'] == 'empty':
            return b''
        if ent['kind'] == 'random':
            return ent['data']
        if ent['kind'] == 'aimed':
            f = {'dialect': ent['dialect'], 'lines': ent['lines']}
            if ent.get('mut'):
                f['mut'] = ent['mut']
            return c09.materialise(f)
        data = bp.encode(ent['dialect'], [(no, p) for no, p in ent['lines']])
        if ent['kind'] == 'mutated':
            data = mutate(None, data, ent['ops'])
        return data

    def run_case(self, case, ctx):
        out = Outcome()
        sb = ctx.sb
        files = {}
        names = []
        for i, ent in enumerate(case['inputs']):
            name = ent.get('name') or 'in%d.bbc' % i
            names.append(name)
            data = self.materialise(ent)
            if data is not None and len(name) < 250 and '/' not in name:
                files[name] = data
        sb.reset(files)
        argv = ['bbcbasic_to_text']
        st = case['opt_style']
        for long_name, short_name, val in (('dialect', 'd', case['dialect']), ('listo', 'l', case['listo'])):
            if val is None:
                continue
            if st == 'eq':
                argv += ['--%s=%s' % (long_name, val)]
            elif st == 'short':
                argv += ['-' + short_name, val]
            elif st == 'short-attached' and val != '':
                argv += ['-' + short_name + val]
            else:
                argv += ['--' + long_name, val]
        if case['extra']:
            argv.append(case['extra'])
        if case['dashdash']:
            argv.append('--')
        stdin = None
        pipe = False
        if case['delivery'] == 'file' or not names:
            argv += names
        else:
            argv += ['-'] + names[1:]
            if names[0] in files:
                stdin = names[0]
                pipe = case['delivery'] == 'stdin_pipe'
        faults = []
        fk = case['fault']
        if fk and names:
            tgt = 'stdin' if stdin else 'in:' + names[0]
            size = len(files.get(names[0], b''))
            if fk == 'openfail':
                opened = [n for n in (names[1:] if stdin else names) if n in files]
                faults = [{'op': 'openfail', 'target': opened[case['fpos'] % len(opened)] if opened else names[0], 'errno': case['errno']}]
            elif fk == 'rfail':
                # programs that are damaged fail early: aim at the first few dozen bytes most of the time
                at = (size * case['fpos']) // 1000 if case['fpos'] % 3 == 0 else case['fpos'] % (min(size, 48) + 1)
                faults = [{'op': 'rfail', 'target': tgt, 'errno': 'EIO', 'at': at}]
            elif fk == 'rchunk':
                faults = [{'op': 'rchunk', 'target': tgt, 'seed': case['chunk']['seed'], 'max': case['chunk']['max']}]
            elif fk == 'stdout_wfail':
                faults = [{'op': 'wfail', 'target': 'stdout', 'errno': 'ENOSPC', 'at': case['fpos'] % 40}]
        build, tool = case['build']
        san = build in ('asan', 'asan-dbg', 'msan-basic')
        r = ctx.sk.run(sb, ctx.exe(build, tool), argv, stdin=stdin, stdin_pipe=pipe, faults=faults, san=san,
                       wall_ms=5000, steps=100000)
        out.add_run(r)
        delivered = r.fired() > 0
        if fk:
            out.fault(fk, delivered)
        bname = build + ('/dbg' if tool.endswith('-dbg') else '')
        kinds = ','.join(e['kind'] for e in case['inputs'])
        shape = '%s/%s/%s' % ('d' if case['dialect'] else '-', 'l' if case['listo'] is not None else '-', case['extra'] or '-')
        out.sig(bname, shape, kinds, fk if delivered else '-', r.exit_class(), bool(r['stderr']), r['log_hash'])
        desc = {'build': bname, 'fault': fk if delivered else None}
        what = '%s [%s] %s' % (bname, kinds, ' '.join(argv[1:]))
        if fk and delivered:
            what += ' with %s' % fk
        if r.get('sanitizer'):
            m = re.search(rb'(ERROR: AddressSanitizer: [a-z-]+|WARNING: MemorySanitizer: [a-z-]+|runtime error: [^\n]{0,80})', r['stderr'])
            kind = m.group(1).decode('latin-1') if m else 'sanitizer report'
            loc = re.search(rb'(bbcbasic_to_text[^\s)]*\+0x[0-9a-f]+)', r['stderr'])
            out.probe('sanitizer-report')
            out.violate('C08.c', '%s: %s at %s' % (what, kind, loc.group(1).decode() if loc else '?'),
                        dict(desc, kind=kind, loc=loc.group(1).decode() if loc else None), case)
            return out
        if r.code is None:
            out.violate('C08.b', '%s: did not return from main (%s)%s' % (what, r.exit_class(), (': ' + r['stderr'][-160:].decode('latin-1')) if r['stderr'] else ''),
                        dict(desc, how=r.exit_class()), case)
            return out
        if r.code not in (0, 1):
            out.violate('C08.a', '%s: exit status %d' % (what, r.code), dict(desc, code=r.code), case)
        elif r.code == 1 and not r['stderr']:
            out.violate('C08.d', '%s: exit status 1 without a diagnostic' % what, desc, case)
        return out

    def group_key(self, v):
        d = v['desc']
        return (d.get('kind'), d.get('loc'), d.get('how'), d.get('code'), d.get('fault') if v['clause'] == 'C08.d' else None)

    def shrink(self, case, clause):
        if len(case['inputs']) > 1:
            for i in range(len(case['inputs'])):
                yield dict(case, inputs=case['inputs'][:i] + case['inputs'][i + 1:])
        if case['fault']:
            yield dict(case, fault=None)
        if case['extra']:
            yield dict(case, extra=None)
        if case['listo'] is not None:
            yield dict(case, listo=None)
        if case['delivery'] != 'file':
            yield dict(case, delivery='file')
        for i, ent in enumerate(case['inputs']):
            if ent['kind'] == 'mutated':
                if len(ent['ops']) > 1:
                    for j in range(len(ent['ops'])):
                        e2 = dict(ent, ops=ent['ops'][:j] + ent['ops'][j + 1:])
                        yield dict(case, inputs=case['inputs'][:i] + [e2] + case['inputs'][i + 1:])
                if len(ent['lines']) > 1:
                    for j in range(len(ent['lines']) - 1, -1, -1):
                        e2 = dict(ent, lines=ent['lines'][:j] + ent['lines'][j + 1:])
                        yield dict(case, inputs=case['inputs'][:i] + [e2] + case['inputs'][i + 1:])
            if ent['kind'] == 'random' and len(ent['data']) > 1:
                for d2 in (ent['data'][:len(ent['data']) // 2], ent['data'][len(ent['data']) // 2:], ent['data'][:-1]):
                    yield dict(case, inputs=case['inputs'][:i] + [dict(ent, data=d2)] + case['inputs'][i + 1:])


CHECK = C08()
