"""C05 — HFE and HxC-MFM flux images yield the same sectors as the equivalent
sector dump.  Engine E2 (simulated disc behind DFS::FileAccess); this is the
zero-fault configuration of the flux-medium simulation of C06, plus E1 spot
checks through the real binary."""

from sim.orch import CheckBase, Outcome
from sim import dfswork, fluxwork
from sim.models import dfsdisc as dd


class C05(CheckBase):
    id = 'C05'
    level = 'exploration'
    engine = 'E2+E1'
    builds = ['rel', 'simdisk']
    rule = ('cases: seeded discs (as C01: Acorn/Watford/Opus, 35/40/80 tracks, 10/16/18 sectors) recorded as HFE v1 '
            '(FM and MFM), HFE v3 (same, with NOP/SETINDEX/SETBITRATE/SKIPBITS opcodes at seeded cell boundaries) and HxC '
            'MFM, one or two sides, gap/sync lengths across the legal ranges (same for all tracks or per track), physical '
            'sector order sequential/interleaved/skewed/random, per-track padding and exact/rounded LUT lengths; each '
            'opened through SimFileAccess and read sector by sector; one case in six is also run through the real dfs '
            'binary under E1 (cat, info, type --binary on the flux image vs the .ssd/.sdd of the same disc). distinct '
            'non-trivial = distinct (container, encoding, geometry, sides, layout parameters, opcode kinds, verdict)')
    assumptions = [
        'the flux encoders (sim/models/flux.py) are validated by the decoder itself on fault-free tracks and against the three flux images in dfs/testdata; a disagreement is investigated as encoder bug or C05 defect before it is reported',
        'HFEv3 SKIPBITS follows the HxC specification: F3 <n> <byte>, the first n bit slots of <byte> are skipped and its remaining 8-n slots are cells',
    ]
    real_components = ['repo library code: img_hfe.cc, img_hxcmfm.cc, track*.cc, crc16.cc, identify.cc, storage.cc (ASan+UBSan) behind SimFileAccess', 'dfs binary under E1 for the spot checks']
    stubbed_components = ['SimFileAccess (the medium, in memory)']

    def budget(self, tier):
        return 200 if tier == 'quick' else 6000

    def time_cap(self, tier):
        return 700 if tier == 'quick' else 6000

    def det_sample(self, tier, n):
        return min(n, 8)

    def gen_case(self, rng, tier, index):
        fc = fluxwork.gen_fluxcase(rng, small=(tier == 'quick' and rng.chance(0.6)))
        surfaces = []
        for side in range(fc['sides']):
            variant = rng.choice(['acorn', 'watford', 'acorn'] + (['opus'] if fc['spt'] == 18 else []))
            if fc['spt'] == 18 and side == 1 and rng.chance(0.5):
                variant = 'opus'      # an Opus DDOS file system cross-checks the geometry of the side it is on
            s = dd.gen_surface(rng, variant=variant, geom=(fc['tracks'], fc['spt']), img_id=2, side=side)
            surfaces.append(s.to_json())
        if fc['sides'] == 2 and rng.chance(0.3):
            # a disc formatted on one side only, imaged with a two-headed drive: side 1 holds no address marks
            fc['blank_sides'] = [1]
        return {'flux': fc, 'surfaces': surfaces, 'spot': rng.below(6) == 0, 'spot_cmd': rng.choice(['cat', 'info', 'type']), 'spot_side': rng.below(2)}

    def run_case(self, case, ctx):
        out = Outcome()
        fc = case['flux']
        surfs = [dd.Surface.from_json(s) for s in case['surfaces']]
        rendered = [s.render() for s in surfs]
        data, info = fluxwork.build(fc, rendered)
        kind = 'mfm' if fc['container'] == 'mfm' else 'hfe'
        e2 = ctx.e2
        out.runs += 1
        ops_before = e2.ops
        from sim.e2 import WorkerDied
        try:
            return self._run(case, ctx, out, fc, surfs, rendered, data, info, kind, e2, ops_before)
        except WorkerDied as wd:
            out.violate('C05.a', 'library code crashed on a fault-free %s %s recording (exit %r): %s' % (
                fc['container'], fc['enc'], wd.code, wd.stderr[-300:].decode('latin-1')), {'container': fc['container'], 'what': 'crash'}, case)
            return out

    def _run(self, case, ctx, out, fc, surfs, rendered, data, info, kind, e2, ops_before):
        j = e2.open(kind, data)
        opk = ','.join(k for k, v in sorted(info['opcodes'].items()) if v) or '-'
        for k, v in info['opcodes'].items():
            if v:
                out.probe('v3-opcode-' + k, v)
        desc = {'container': fc['container'], 'enc': fc['enc'], 'sides': fc['sides'], 'opcodes': opk}
        what = '%s %s image, %d tracks x %d sectors x %d side(s), params %s, order %s, opcodes %s' % (
            fc['container'], fc['enc'], fc['tracks'], fc['spt'], fc['sides'], fc['params'], fc['order'], opk)
        verdict = 'ok'
        if not j['ok']:
            verdict = 'rejected'
            out.violate('C05.a', '%s: a fault-free recording was rejected: %s' % (what, j['error'][:200]), dict(desc, what='rejected'), case)
        else:
            drives = j['drives']
            blank = set(fc.get('blank_sides') or ())
            if blank:
                out.probe('image-with-unformatted-side')
            if len(drives) != fc['sides'] and not (blank and len(drives) == fc['sides'] - len(blank)):
                out.violate('C05.a', '%s: %d drives attached for %d sides' % (what, len(drives), fc['sides']), dict(desc, what='sides'), case)
            for d in drives:
                di = {0: 0, 2: 1}.get(d['n'])
                if di is None or di >= fc['sides']:
                    out.violate('C05.a', '%s: a drive numbered %d was attached' % (what, d['n']), dict(desc, what='sides'), case)
                    continue
                if di in blank:
                    # nothing is recorded there: whatever the drive reports, no sector may be readable
                    rb = e2.readall(d['n'])
                    if any(isinstance(x, (bytes, bytearray)) for x in rb['sectors']):
                        out.violate('C05.c', '%s: side %d is unformatted, yet sectors were read from it' % (what, di), dict(desc, what='blank-side-readable'), case)
                    continue
                g = d['geometry']
                if g[0] != fc['tracks'] or g[2] != fc['spt'] or g[3] != fc['enc']:
                    verdict = 'geometry'
                    out.violate('C05.b', '%s: side %d reported as %s' % (what, di, g), dict(desc, what='geometry'), case)
                    continue
                r = e2.readall(d['n'])
                want = rendered[di]
                n = fc['tracks'] * fc['spt']
                missing = [i for i, s in enumerate(r['sectors']) if s is None or s == 'E']
                wrong = [i for i, s in enumerate(r['sectors']) if isinstance(s, (bytes, bytearray)) and s != want[i * 256:(i + 1) * 256]]
                if len(r['sectors']) != n or missing or wrong:
                    verdict = 'mismatch'
                    first = (missing + wrong)[0] if (missing or wrong) else -1
                    out.violate('C05.c', '%s: side %d: %d of %d sectors missing, %d differ from the sector dump (first at track %d sector %d)'
                                % (what, di, len(missing), n, len(wrong), first // fc['spt'], first % fc['spt']),
                                dict(desc, what='sectors-missing' if missing else 'sectors-differ'), case)
                if d['format'] is not None:
                    # "every command gives the same catalogue": the file system on that side must mount
                    for v in surfs[di].volumes:
                        m = e2.mount(d['n'], v.label)
                        out.steps += 1
                        if not m['ok']:
                            verdict = 'mount-failed'
                            out.violate('C05.e', '%s: side %d%s: the sectors equal the sector dump but the file system cannot be mounted: %s' % (
                                what, di, (' volume ' + v.label) if v.label else '', m['error'][:160]), dict(desc, what='mount'), case)
                            break
                        names = sorted((e['dir'], e['name']) for e in m['entries'])
                        want_names = sorted((f.dir, f.name.decode('latin-1').split(' ')[0]) for f in v.files)
                        if names != want_names:
                            verdict = 'catalogue-differs'
                            out.violate('C05.e', '%s: side %d: mounted catalogue lists %d entries, the disc has %d' % (what, di, len(names), len(want_names)),
                                        dict(desc, what='catalogue'), case)
                            break
                if d['format'] is None:
                    out.violate('C05.c', '%s: side %d has no recognisable file system though its sectors are those of a valid disc' % (what, di), dict(desc, what='no-format'), case)
        out.steps += e2.ops - ops_before
        out.sig(fc['container'], fc['enc'], fc['tracks'], fc['spt'], fc['sides'], fc['params'], fc['order'], fc.get('pad'), opk, verdict)
        if case['spot'] and j['ok']:
            self.spot(ctx, out, case, fc, surfs, rendered, data, what, desc)
        return out

    def spot(self, ctx, out, case, fc, surfs, rendered, data, what, desc):
        """The same command on the flux image and on the sector dump of the same disc (real binary, E1)."""
        sb = ctx.sb
        ext = 'ssd' if fc['enc'] == 'fm' else 'sdd'
        fname = 'f.mfm' if fc['container'] == 'mfm' else 'f.hfe'
        side = case.get('spot_side', 0) % len(surfs)
        if side in (fc.get('blank_sides') or ()):
            side = 0      # nothing is recorded on an unformatted side: compare the formatted one
        s = surfs[side]
        drive = 0 if side == 0 else 2
        if not dd.geometry_is_identifiable(s, ext):
            out.skip('spot-geometry-not-identifiable-for-sector-dump')
            return
        sb.reset({fname: data, 'd.' + ext: rendered[side]})
        cmdk = case['spot_cmd']
        files = [(v, f) for v, f in s.all_files() if dfswork.safe_for_cmdline(f)]
        if cmdk == 'type' and files:
            v, f = files[0]
            cmd = ['type', '--binary', dfswork.fsp(v, f, 0)]
            cmd_flux = ['type', '--binary', dfswork.fsp(v, f, drive)]
        elif cmdk == 'info':
            cmd = ['info', ':0%s.*.*' % (s.volumes[0].label or '')]
            cmd_flux = ['info', ':%d%s.*.*' % (drive, s.volumes[0].label or '')]
        else:
            cmd = ['show-titles', '0']
            cmd_flux = ['show-titles', str(drive)]
        if cmdk == 'type' and not files:
            cmd_flux = ['show-titles', str(drive)]
            cmd = ['show-titles', '0']
        exe = ctx.exe('rel', 'dfs')
        a = ctx.sk.run(sb, exe, ['dfs', '--file', 'd.' + ext] + cmd)
        b = ctx.sk.run(sb, exe, ['dfs', '--file', fname] + cmd_flux)
        out.add_run(a, ref=True)
        out.add_run(b)
        out.probe('e1-spot-checks')
        import re
        norm = (lambda o: re.sub(b'(?m)^%d' % drive, b'0', o)) if cmd[0] == 'show-titles' else (lambda o: o)
        if a.exit_class() != b.exit_class() or a['stdout'] != norm(b['stdout']):
            out.violate('C05.d', '%s: dfs %s gives %s on the flux image and %s on the sector dump; stdout %s' % (
                what, ' '.join(cmd), b.exit_class(), a.exit_class(), 'identical' if a['stdout'] == b['stdout'] else 'differs'),
                dict(desc, what='spot'), case)

    def group_key(self, v):
        d = v['desc']
        return (d.get('container'), d.get('what'), d.get('opcodes'), d.get('sides'))

    def shrink(self, case, clause):
        fc = case['flux']
        if fc['sides'] == 2:
            yield dict(case, flux=dict(fc, sides=1), surfaces=case['surfaces'][:1])
        if fc.get('pad'):
            yield dict(case, flux=dict(fc, pad=False))
        if fc.get('params') != 'same':
            yield dict(case, flux=dict(fc, params='same'))
        if fc.get('order') != 'seq':
            yield dict(case, flux=dict(fc, order='seq'))
        v3 = fc.get('v3')
        if v3 and len(v3.get('kinds', [])) > 1:
            for k in v3['kinds']:
                yield dict(case, flux=dict(fc, v3=dict(v3, kinds=[k])))
        if v3 and v3.get('density', 0) > 1:
            yield dict(case, flux=dict(fc, v3=dict(v3, density=1)))
        if case.get('spot'):
            yield dict(case, spot=False)


CHECK = C05()
