"""C10 — gzip compression of an image file is transparent.  Engine E1."""

from sim.orch import CheckBase, Outcome
from sim import dfswork, fluxwork
from sim.models import dfsdisc as dd
from sim.models import gz


class C10(CheckBase):
    id = 'C10'
    level = 'fault_enumeration'
    engine = 'E1'
    builds = ['rel']
    rule = ('workloads: seeded images of every sector-dump container (.ssd/.sdd one side, .dsd/.ddd, .mmb) and flux '
            'test images, gzip-compressed with seeded level/header fields/member structure, x every read-only command '
            'and the extract commands; each judged against the run on the uncompressed file. faults: benign read '
            'chunking; truncation of the .gz at byte k; single-bit flips; non-gzip content under a .gz name; read error '
            'on the .gz; failing tmpfile creation; spool write failure at byte k; spool read failure. quick samples '
            'k/bits boundary-weighted; thorough enumerates every truncation point and every bit of streams <= 1.5 KiB. '
            'distinct non-trivial = distinct (container, command, fault kind, reference-decoder verdict, exit class, '
            'event-log hash) among runs where the fault was delivered (or the medium damaged)')
    assumptions = [
        'Python zlib (wbits=31, following members) is the reference gzip decoder that classifies a damaged stream',
        'a damaged stream that is still a valid encoding of the same image must behave like the intact one; one that decodes to different data is not judged',
        'abnormal termination under an injected I/O fault is C07\'s clause and only counted here',
    ]
    real_components = ['dfs binary (RelWithDebInfo) incl. its zlib inflate loop and tmpfile spool', 'zlib', 'glibc stdio', 'kernel tmpfs / O_TMPFILE for un-faulted calls']
    stubbed_components = ['results of faulted open/read/write calls on the .gz file and on the O_TMPFILE spool (decided by simkernel)']

    def budget(self, tier):
        return 400 if tier == 'quick' else 4000

    def time_cap(self, tier):
        return 600 if tier == 'quick' else 5400

    # ------------------------------------------------------------------ generation
    def gen_gz_params(self, rng):
        p = {'level': rng.choice([0, 1, 6, 9, rng.randint(0, 9)])}
        if rng.chance(0.4):
            p['fname'] = rng.choice([b'img.ssd', b'x', b'a' * 40])
        if rng.chance(0.2):
            p['fextra'] = rng.bytes(rng.randint(0, 20))
        if rng.chance(0.2):
            p['fcomment'] = b'made by verif'
        if rng.chance(0.2):
            p['fhcrc'] = True
        if rng.chance(0.3):
            p['mtime'] = rng.below(1 << 32)
        if rng.chance(0.2):
            p['splits'] = sorted(rng.randint(1, 999) for _ in range(rng.randint(1, 2)))
        if rng.chance(0.3):
            # steer the end of the first member (or of the whole stream) onto / next to a multiple of the
            # tool's 512-byte input buffer
            p['align'] = rng.choice([0, 0, 0, 1, -1, 511, 8, -8])
        return p

    def gen_case(self, rng, tier, index):
        small = rng.chance(0.35)
        if index % 150 == 3:
            # the largest image there is: an MMB with all 511 slots (the last one populated), 104,660,992 bytes
            s = dd.gen_surface(rng, variant='acorn', geom=(80, 10), img_id=3, side=0)
            image = {'ext': 'mmb', 'surfaces': [s.to_json()], 'slots': {'510': [0x0F, 0], '0': [0xF0, None]}, 'full': True}
            cmd = rng.choice([['show-titles', '1020'], ['cat', '1020'], ['dump-sector', '1020', '79', '9'], ['info', ':1020.*.*']])
            return {'image': image, 'gz': {'level': 1}, 'cmd': cmd, 'globals': [], 'fault': 'none', 'frac': 0, 'edge': None, 'bit': 0,
                    'errno': 'EIO', 'chunk': {'seed': 1, 'max': 512}, 'notgzip': 'raw'}
        if small:
            # a tiny image: a 2-sector or few-sector catalogue-only disc compresses to well under 1 KiB
            s = dd.gen_surface(rng, variant='acorn', geom=rng.choice([(40, 10), (80, 10)]))
            s.volumes[0].files = s.volumes[0].files[:rng.randint(0, 2)]
            image = {'ext': 'ssd', 'surfaces': [s.to_json()], 'cut_sectors': rng.choice([2, 3, 4, 10, None])}
        elif rng.chance(0.15):
            # a flux image; optionally the file ends inside the padding after the last track
            fc = fluxwork.gen_fluxcase(rng, small=True, sides=1)
            s = dd.gen_surface(rng, variant='acorn', geom=(fc['tracks'], fc['spt']), img_id=3, side=0)
            image = {'ext': 'mfm' if fc['container'] == 'mfm' else 'hfe', 'surfaces': [s.to_json()], 'genflux': fc,
                     'trim': rng.choice([0, 0, 1, 100, 255, 256, 300, 511])}
        else:
            image = dfswork.gen_image(rng)
        if 'genflux' not in image and rng.chance(0.06):
            # an uncompressed image may begin with any bytes at all, the two that open a gzip stream included: sector 0
            # starts with the disc title (an MMB with its boot slots)
            v0 = image['surfaces'][0]['volumes'][0] if image['surfaces'][0]['volumes'] else None
            if v0 is not None and image['ext'] != 'mmb':
                v0['title'] = b'\x1f\x8b' + rng.choice([b'\x08', b'\x08\x00', b'', b'AB'])
            elif image['ext'] == 'mmb':
                image['boot'] = [0x1F, 0x8B, 0x08, 0x00]
        drives = [(d, i) for d, i in dfswork.image_drives(image) if i is not None]
        drv, si = rng.choice(drives)
        s = dd.Surface.from_json(image['surfaces'][si])
        if rng.chance(0.85) or image.get('cut_sectors'):
            which = rng.choice(['cat', 'info', 'free', 'space', 'sector-map', 'show-titles'] if image.get('cut_sectors') else dfswork.READ_CMDS)
            cmd = dfswork.gen_read_command(rng, s, which, drive=drv)
            globals_ = ['--drive', str(drv)] if cmd[0] in ('cat', 'free', 'space', 'sector-map', 'info') and len(cmd) == 1 else []
        else:
            cmd = [rng.choice(['extract-files', 'extract-unused']), 'out']
            globals_ = ['--drive', str(drv)]
        fault = rng.weighted([(7, 'none'), (2, 'rchunk'), (4, 'trunc'), (4, 'flip'), (2, 'backref'), (2, 'trunc512'), (1, 'notgzip'), (1, 'rfail'),
                              (1, 'tmp_createfail'), (3, 'tmp_wfail'), (1, 'tmp_rfail')]
                             + ([(2, 'enum_trunc'), (2, 'enum_flip')] if small else []))
        case = {'image': image, 'gz': self.gen_gz_params(rng), 'cmd': cmd, 'globals': globals_, 'fault': fault,
                'frac': rng.below(1001), 'edge': rng.weighted([(5, None), (1, 0), (1, 1), (1, -1), (1, -8), (1, -9), (1, 10)]),
                'bit': rng.below(8), 'errno': rng.choice(['EIO', 'ENOSPC', 'EMFILE', 'EACCES']),
                'chunk': {'seed': rng.below(1 << 30), 'max': rng.choice([1, 7, 100, 511, 513])},
                'notgzip': rng.choice(['raw', 'zeros', 'text', 'zlib', 'empty'])}
        if fault in ('tmp_wfail', 'tmp_rfail') and case['edge'] is not None and case['edge'] < 0 and not image.get('cut_sectors') and rng.chance(0.7):
            # a spool fault in the last few bytes matters to a command that needs the far end of the image
            d, si = drives[-1]
            sj = image['surfaces'][si]
            if rng.chance(0.6):
                # (the one command that reads the far end without a catalogue entry telling it how much to expect)
                case['cmd'] = ['extract-unused', 'out']
                case['globals'] = ['--drive', str(d)]
            else:
                case['cmd'] = ['dump-sector', str(d), str(sj['tracks'] - 1), str(sj['spt'] - 1)]
                case['globals'] = []
        return case

    # ------------------------------------------------------------------ execution
    def image_bytes(self, image):
        if 'genflux' in image:
            data, _ = fluxwork.build_from_json(image['genflux'], image['surfaces'], None)
            trim = image.get('trim', 0)
            if trim:
                # only padding may go: never cut into recorded cells
                pad = len(data) - len(data.rstrip(b'\0'))
                trim = min(trim, max(0, pad - 8))
                data = data[:len(data) - trim] if trim else data
            return data
        data = dfswork.render_image(image)
        if image.get('cut_sectors'):
            data = data[:image['cut_sectors'] * 256]
        return data

    def launch(self, ctx, out, case, files, name, faults=(), ref=False, steps=60000):
        sb = ctx.sb
        f = dict(files)
        f['out'] = None
        sb.reset(f)
        argv = ['dfs', '--file', name] + case['globals'] + case['cmd']
        big = any(len(v) > 50000000 for v in files.values() if isinstance(v, (bytes, bytearray)))
        r = ctx.sk.run(sb, ctx.exe('rel', 'dfs'), argv, faults=faults, steps=steps if not big else 2000000, wall_ms=(60000 if steps > 200000 else 5000) if not big else 120000)
        out.add_run(r, ref=ref)
        r['snapshot'] = sb.snapshot('out')
        return r

    def pos(self, case, length):
        if case.get('abs') is not None:
            return case['abs']
        if case['edge'] is not None:
            e = case['edge']
            k = e if e >= 0 else length + e
        else:
            k = (length * case['frac']) // 1000
        return max(0, min(length - 1, k)) if length else 0

    def run_case(self, case, ctx):
        out = Outcome()
        image = case['image']
        X = self.image_bytes(image)
        ext = image['ext']
        plain = 'img.' + ext
        gzname = plain + '.gz'
        G = gz.compress(X, case['gz'])
        ref = self.launch(ctx, out, case, {plain: X}, plain, ref=True)
        if ref.code is None:
            out.skip('reference-run-abnormal')
            return out
        fault = case['fault']
        cont = ext
        atom = dict(case)
        if fault in ('none', 'rchunk'):
            flt = []
            if fault == 'rchunk':
                flt = [{'op': 'rchunk', 'target': 'in:' + gzname, 'seed': case['chunk']['seed'], 'max': case['chunk']['max']}]
            # one-byte reads of a large file are legal but need a larger step budget
            r = self.launch(ctx, out, case, {gzname: G}, gzname, faults=flt, steps=260000 + 3 * len(G))
            if fault == 'rchunk':
                out.fault('rchunk', r.fired() > 0)
            out.sig(cont, case['cmd'][0], fault, 'valid', r.exit_class(), r['log_hash'])
            if len(G) % 512 == 0:
                out.probe('compressed-length-multiple-of-512')
            if case['gz'].get('splits'):
                out.probe('multi-member-stream')
                if case['gz'].get('align') == 0:
                    out.probe('member-ends-on-512-byte-boundary')
            self.judge_same(out, case, atom, ref, r, 'C10.a', '%s compressed (%s)%s' % (plain, self.gzdesc(case), ' with read chunking' if fault == 'rchunk' else ''),
                            {'container': cont, 'fault': fault, 'members': 'multi' if case['gz'].get('splits') else 'single'})
            if fault == 'none' and not image.get('full') and not image.get('cut_sectors'):
                # the same pair of files under commands that reach the far end of every surface: the last sector of
                # the last track, and every file of a drive
                drives = [(d, i) for d, i in dfswork.image_drives(image) if i is not None]
                for j, (d, si) in enumerate(drives[:2]):
                    sj = image['surfaces'][si]
                    extra = [(['dump-sector', str(d), str(sj['tracks'] - 1), str(sj['spt'] - 1)], []),
                             (['extract-files', 'out'], ['--drive', str(d)])][(case['frac'] + j) % 2]
                    c2 = dict(case, cmd=extra[0], globals=extra[1])
                    ref2 = self.launch(ctx, out, c2, {plain: X}, plain, ref=True)
                    if ref2.code is None:
                        continue
                    r2 = self.launch(ctx, out, c2, {gzname: G}, gzname, steps=260000 + 3 * len(G))
                    out.sig(cont, extra[0][0], 'none+far-end', 'valid', r2.exit_class(), r2['log_hash'])
                    self.judge_same(out, c2, dict(c2), ref2, r2, 'C10.a', '%s compressed (%s), far-end command' % (plain, self.gzdesc(case)),
                                    {'container': cont, 'fault': fault, 'members': 'multi' if case['gz'].get('splits') else 'single'})
            return out
        if fault == 'backref':
            # a second member whose matches reach back into the first member's data: every bit of framing is right,
            # checksums included, and the stream is nevertheless not a gzip file
            cut = max(1, min(len(X) - 1, (len(X) * case['frac']) // 1000)) if case['edge'] is None else max(1, min(len(X) - 1, 256 * (2 + case['bit'])))
            D = gz.backref_pair(X, cut, level=case['gz'].get('level', 6) or 6)
            if D is None:
                out.skip('backref-stream-happens-to-be-valid')
                return out
            self.medium(ctx, out, case, dict(atom, abs=cut), ref, X, D, gzname, cont, 'backref', cut)
            return out
        if fault == 'trunc512':
            # the stream cut at every multiple of the tool's 512-byte read size (at most 200 of them, evenly spread): the
            # cut then coincides with the end of an input chunk, the one place where "no more input" and "end of
            # file" look alike
            ks = list(range(512, len(G), 512))
            if len(ks) > 200:
                st = len(ks) / 200.0
                ks = [ks[int(i * st)] for i in range(200)]
            out.probe('enumerated-512-byte-truncation-points', len(ks))
            bad = 0
            for k in ks:
                if self.medium(ctx, out, case, dict(atom, fault='trunc', abs=k), ref, X, G[:k], gzname, cont, 'trunc', k) == 'abnormal':
                    bad += 1
                if bad >= 3 or ctx.expired():
                    out.probe('enumeration-cut-short')
                    break
            return out
        if fault in ('trunc', 'flip', 'enum_trunc', 'enum_flip', 'notgzip'):
            if fault == 'notgzip':
                kind = case['notgzip']
                import zlib
                D = {'raw': X, 'zeros': bytes(min(len(X), 4096)), 'text': b'This is not a gzip file.\n' * 40,
                     'zlib': zlib.compress(X), 'empty': b''}[kind]
                self.medium(ctx, out, case, atom, ref, X, D, gzname, cont, 'notgzip:' + kind)
            elif fault == 'trunc':
                k = self.pos(case, len(G))
                if k < 1:
                    k = 1
                self.medium(ctx, out, case, dict(atom, abs=k), ref, X, G[:k], gzname, cont, 'trunc', k)
            elif fault == 'flip':
                k = self.pos(case, len(G))
                D = bytearray(G)
                D[k] ^= 1 << case['bit']
                self.medium(ctx, out, case, dict(atom, abs=k), ref, X, bytes(D), gzname, cont, 'flip', k)
            elif fault == 'enum_trunc':
                if len(G) > 1536 and ctx.tier != 'thorough':
                    step = (len(G) + 255) // 256
                else:
                    step = 1
                if len(G) > 8192:
                    step = max(step, len(G) // 2048)
                out.probe('enumerated-every-truncation-point' if step == 1 else 'enumerated-strided-truncation')
                bad = 0
                for k in range(1, len(G), step):
                    if self.medium(ctx, out, case, dict(atom, fault='trunc', abs=k), ref, X, G[:k], gzname, cont, 'trunc', k) == 'abnormal':
                        bad += 1
                    if bad >= 3 or ctx.expired():
                        out.probe('enumeration-cut-short')
                        break
            else:
                nbits = len(G) * 8
                if len(G) > 1536:
                    step = max(1, nbits // 1024)
                elif ctx.tier != 'thorough':
                    step = max(1, nbits // 512)
                else:
                    step = 1
                out.probe('enumerated-every-bit' if step == 1 else 'enumerated-strided-bits')
                bad = 0
                for b in range(0, nbits, step):
                    D = bytearray(G)
                    D[b // 8] ^= 1 << (b % 8)
                    if self.medium(ctx, out, case, dict(atom, fault='flip', abs=b // 8, bit=b % 8), ref, X, bytes(D), gzname, cont, 'flip', b // 8) == 'abnormal':
                        bad += 1
                    if bad >= 3 or ctx.expired():
                        out.probe('enumeration-cut-short')
                        break
            return out
        # dynamic I/O faults on the intact .gz
        if fault == 'rfail':
            k = self.pos(case, len(G))
            flt = [{'op': 'rfail', 'target': 'in:' + gzname, 'errno': 'EIO', 'at': k}]
            atom = dict(atom, abs=k)
        elif fault == 'tmp_createfail':
            flt = [{'op': 'openfail', 'target': 'tmpfile', 'errno': case['errno']}]
        elif fault == 'tmp_wfail':
            k = self.pos(case, len(X))
            flt = [{'op': 'wfail', 'target': 'tmpfile', 'errno': 'ENOSPC' if case['errno'] in ('EMFILE', 'EACCES') else case['errno'], 'at': k}]
            atom = dict(atom, abs=k)
        else:
            k = self.pos(case, len(X))
            flt = [{'op': 'rfail', 'target': 'tmpfile', 'errno': 'EIO', 'at': k}]
            atom = dict(atom, abs=k)
        r = self.launch(ctx, out, case, {gzname: G}, gzname, faults=flt)
        delivered = r.fired() > 0
        out.fault(fault, delivered)
        desc = {'container': cont, 'fault': fault}
        what = 'dfs --file %s %s with %s' % (gzname, ' '.join(case['cmd']), self.fdesc(flt[0]))
        if not delivered:
            self.judge_same(out, case, atom, ref, r, 'C10.a', what + ' (fault not delivered)', desc)
            return out
        out.sig(cont, case['cmd'][0], fault, 'io', r.exit_class(), r['log_hash'])
        if r.code is None:
            out.probe('abnormal-termination-under-io-fault(C07)')
            return out
        same = r['stdout'] == ref['stdout'] and r['snapshot'] == ref['snapshot'] and r.code == ref.code
        if r.code == 0 and not same:
            out.violate('C10.c', '%s: exit status 0 but the output differs from the run on the uncompressed file' % what, desc, atom)
        elif r.code != 0 and not same and not r['stderr']:
            out.violate('C10.d', '%s: exit status %d without a diagnostic' % (what, r.code), desc, atom)
        return out

    def fdesc(self, f):
        if f['op'] == 'openfail':
            return 'tmpfile() failing (%s)' % f['errno']
        if f['op'] == 'wfail':
            return 'the decompression spool refusing writes from byte %d (%s)' % (f['at'], f['errno'])
        return 'read error at byte %d of %s' % (f['at'], f['target'])

    def gzdesc(self, case):
        p = case['gz']
        return 'level %d%s%s' % (p['level'], ', %d members' % (len(p['splits']) + 1) if p.get('splits') else '',
                                 ''.join(', ' + k for k in ('fname', 'fextra', 'fcomment', 'fhcrc') if p.get(k)))

    def judge_same(self, out, case, atom, ref, r, clause, what, desc):
        if r.code is None:
            out.violate(clause, '%s: abnormal termination %s (uncompressed: %s)' % (what, r.exit_class(), ref.exit_class()), desc, atom)
            return
        if r.code != ref.code:
            out.violate(clause, '%s: exit status %d, uncompressed file gives %d (%s)' % (what, r.code, ref.code, r['stderr'][:120]), desc, atom)
        elif r['stdout'] != ref['stdout']:
            out.violate(clause, '%s: standard output differs from the run on the uncompressed file' % what, desc, atom)
        elif r['snapshot'] != ref['snapshot']:
            out.violate(clause, '%s: extracted files differ from the run on the uncompressed file' % what, desc, atom)

    def medium(self, ctx, out, case, atom, ref, X, D, gzname, cont, fkind, k=None):
        v, data = gz.verdict(D)
        r = self.launch(ctx, out, case, {gzname: D}, gzname)
        out.fault(fkind.split(':')[0], True)
        out.sig(cont, case['cmd'][0], fkind, v, r.exit_class(), r['log_hash'])
        where = '' if k is None else ' at byte %d of %d' % (k, len(gz.compress(X, case['gz'])))
        desc = {'container': cont, 'fault': fkind.split(':')[0], 'verdict': v}
        what = 'dfs --file %s %s with the .gz damaged (%s%s)' % (gzname, ' '.join(case['cmd']), fkind, where)
        uses_image = not (case['cmd'][0] == 'help' or case['cmd'][0] == '--help')
        if v == 'valid':
            if data == X:
                out.probe('damage-left-stream-valid')
                self.judge_same(out, case, atom, ref, r, 'C10.a', what + ' but still a valid encoding of the image', desc)
            else:
                out.skip('damaged-stream-valid-but-different-data')
            return
        out.probe('stream-invalid:' + fkind.split(':')[0])
        if r.code is None:
            # neither a crash nor a hang is "rejected with a diagnostic"
            out.violate('C10.b', '%s: the stream is invalid (%s) but dfs did not reject it: %s' % (what, data, r.exit_class()), dict(desc, how=r.exit_class().split('-')[0]), atom)
            return 'abnormal'
        if r.code == 0:
            out.violate('C10.b', '%s: the stream is invalid (%s) yet exit status 0' % (what, data), desc, atom)
        elif not r['stderr']:
            out.violate('C10.b', '%s: rejected with status %d but no diagnostic' % (what, r.code), desc, atom)

    def group_key(self, v):
        d = v['desc']
        return (d.get('fault'), d.get('verdict'), d.get('members'), d.get('how'))

    def shrink(self, case, clause):
        if case['gz'] != {'level': 6}:
            keep = {'level': 6}
            if case['gz'].get('splits'):
                keep['splits'] = case['gz']['splits'][:1]
            if keep != case['gz']:
                yield dict(case, gz=keep, abs=None)
        image = case['image']
        for si, surf in enumerate(image['surfaces']):
            for vi, v in enumerate(surf['volumes']):
                if v['files'] and case['cmd'][0] not in ('type', 'list', 'dump'):
                    v2 = dict(v, files=[])
                    s2 = dict(surf, volumes=surf['volumes'][:vi] + [v2] + surf['volumes'][vi + 1:])
                    yield dict(case, image=dict(image, surfaces=image['surfaces'][:si] + [s2] + image['surfaces'][si + 1:]), abs=None)
        if case['cmd'][0] != 'cat':
            yield dict(case, cmd=['cat'], abs=case.get('abs'))


CHECK = C10()
