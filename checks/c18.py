"""C18 — diagnostic and presentation options never change the data shown.
Engine E1: paired runs; the simulator makes "the same run again" a controlled
comparison (tty-ness, COLUMNS, ASLR, heap fill, environment size, descriptors)."""

import re

from sim.orch import CheckBase, Outcome
from sim import dfswork, fluxwork
from sim.models import dfsdisc as dd
from checks import c07

COLUMNS = [None, '0', '1', '20', '39', '40', '79', '80', '200', 'junk', '100000000000000000000', '-5', '']
UIS = ['acorn', 'watford', 'opus']


def tokenise_cat(stdout):
    """Layout-independent content of a `cat` listing (DESIGN.md A.6)."""
    text = stdout.decode('latin-1')
    lines = text.split('\n')
    # header = up to the first empty line
    try:
        blank = lines.index('')
    except ValueError:
        blank = len(lines)
    header = lines[:blank]
    body = lines[blank + 1:]
    h = '\n'.join(header)
    fields = {}
    m = re.search(r'\(([0-9A-Fa-f]{2})\)', header[0] if header else '')
    fields['cycle'] = m.group(1).lower() if m else None
    if m:
        fields['title'] = header[0][:m.start()].strip()
    else:
        # no cycle number is shown (HDFS-flagged catalogues): the title is the first line minus the density words
        # that the Acorn and Watford styles put on the same line
        fields['title'] = re.sub(r'\s+(MFM|FM|Single density|Double density)\s*$', '', header[0] if header else '').strip()
    fields['density'] = 'double' if re.search(r'\bMFM\b|Double density', h) else ('single' if re.search(r'\bFM\b|Single density', h) else None)
    for key, rx in (('drive', r'Drive (\S+)'), ('option', r'Option (\d \(\w+\))'), ('dir', r'Dir(?:\.|ectory) (:\S+)'), ('lib', r'Lib(?:\.|rary) (:\S+)')):
        m = re.search(rx, h)
        fields[key] = m.group(1) if m else None
    # style-specific extras (the Opus volume-letter summary, Watford's file count and work file) are layout of that style,
    # not catalogue content common to all styles, and are not compared (DESIGN.md A.6)
    entries = []
    for ln in body:
        if re.match(r'^\d+ files of \d+ on \d+ tracks$', ln.strip()) or ln.strip() == 'No file':
            continue
        for tok in ln.split():
            if tok == 'L' and entries and not entries[-1][1]:
                entries[-1] = (entries[-1][0], True)
            else:
                entries.append((tok, False))
    return fields, sorted(entries)


class C18(CheckBase):
    id = 'C18'
    level = 'exploration'
    engine = 'E1'
    builds = ['rel']
    rule = ('cases: seeded images (valid generated discs of all containers, flux test images, and damaged variants of both) x '
            'any command (valid or hostile arguments); each case is a base run plus paired variants: +--verbose, '
            '+--show-config, both, at every position relative to --file; --ui acorn|watford|opus; COLUMNS in {unset, 0, 1, '
            '20, 39, 40, 79, 80, 200, junk, 1e20, -5, empty} with stdout presented as a terminal or not; and the identical '
            'command line under environment noise (ASLR on, MALLOC_PERTURB_, padded environment, extra open descriptors). '
            'distinct non-trivial = distinct (image source, command, variant kind, exit class, event-log hash of the variant run)')
    assumptions = [
        'for `cat` under --ui/COLUMNS the comparison is on the tokenised content (title, cycle, density, drive, option, directory, library, multiset of (entry, lock)), by the fixed tokeniser of DESIGN.md A.6; generated names avoid a bare "L" entry',
        'stderr is free to differ under --verbose/--show-config; under environment noise it must be identical too',
    ]
    real_components = ['dfs binary (RelWithDebInfo)', 'kernel tmpfs', 'real ASLR of the kernel for the noise runs']
    stubbed_components = ['the terminal: fstat()/ioctl(TCGETS) answers on stdout decided by simkernel']

    def budget(self, tier):
        return 1100 if tier == 'quick' else 20000

    def time_cap(self, tier):
        return 600 if tier == 'quick' else 5400

    def gen_case(self, rng, tier, index):
        src = rng.weighted([(8, 'generated'), (3, 'flux'), (3, 'damaged'), (7, 'genflux')])
        case = {}
        if src == 'generated':
            image = dfswork.gen_image(rng)
            ops = []
        elif src == 'flux':
            base = rng.choice(c07.FLUX_BASES)
            image = {'flux_base': base, 'ext': 'hfe' if '.hfe' in base else 'mfm'}
            ops = []
        elif src == 'genflux':
            # half of these images are intact (and so accepted): option independence of the container and track decoders
            # shows on images that load, not only on ones that are refused either way
            fc, dmg = fluxwork.gen_hostile_flux(rng, sides=1, none_weight=8, container=rng.weighted([(2, 'hfe1'), (2, 'hfe3'), (4, 'mfm')]))
            surfaces = [dd.gen_surface(rng, variant='acorn', geom=(fc['tracks'], fc['spt']), img_id=8, side=0).to_json()]
            image = {'genflux': fc, 'surfaces': surfaces, 'damage': dmg, 'ext': 'mfm' if fc['container'] == 'mfm' else 'hfe'}
            ops = []
        else:
            if rng.chance(0.6):
                image = dfswork.gen_image(rng)
                size = 100000
            else:
                base = rng.choice(c07.FLUX_BASES)
                image = {'flux_base': base, 'ext': 'hfe' if '.hfe' in base else 'mfm'}
                size = len(c07.flux_base(base))
            ops = c07.CHECK.gen_ops(rng, image['ext'], size)
        if src == 'generated' and rng.chance(0.07):
            # an HDFS-flagged catalogue (bit 3 of byte 0x106; such catalogues carry no cycle number), with or without a
            # title: the presentation styles must still agree on everything else
            sj = image['surfaces'][0]
            if sj['variant'] == 'acorn' and sj['volumes']:
                sj['post'] = dict(sj.get('post') or {}, **{'262': [255, 8]})
                if rng.chance(0.7):
                    sj['volumes'][0]['title'] = b''
                cmd_override = [rng.choice(['cat', 'cat', 'cat', 'info', 'free']), ] if rng.chance(0.8) else None
            else:
                cmd_override = None
        else:
            cmd_override = None
        # avoid a bare 'L' entry
        for s in image.get('surfaces', []):
            for v in s['volumes']:
                for f in v['files']:
                    if f['name'] == b'L':
                        f['name'] = b'LL'
        if image.get('surfaces') and rng.chance(0.75):
            s = dfswork.surface_of({'surface': image['surfaces'][0]})
            cmd = dfswork.gen_read_command(rng, s, rng.choice(['cat', 'cat', 'cat'] + dfswork.READ_CMDS))
        elif rng.chance(0.6):
            cmd = rng.choice([['cat'], ['info', '*.*'], ['free'], ['space'], ['sector-map'], ['show-titles'], ['dump-sector', '0', '1', '2'], ['help']])
        else:
            cmd = c07.CHECK.gen_command(rng, image)
            if cmd[0] in ('extract-files', 'extract-unused'):
                cmd = ['cat']
        if cmd_override:
            cmd = cmd_override + (['*.*'] if cmd_override[0] == 'info' else [])
        aimed = False
        if src == 'genflux' and rng.chance(0.5):
            # aim the medium damage at the file the command reads: the gap and sync run in front of one data field
            # on a track the file occupies is wiped, so what the track decoder does next decides whether the
            # *following* sectors of that track are still found - and that must not depend on the diagnostics
            s0 = dfswork.surface_of({'surface': image['surfaces'][0]})
            cands = [(v, f) for v, f in s0.all_files() if f.length > 0 and dfswork.safe_for_cmdline(f)]
            if cands:
                v, f = rng.choice(cands)
                lba = v.origin + f.start
                last = lba + f.nsectors() - 1
                # the damaged sector itself is best one the command does not need (a neighbour of the file on the
                # file's first or last track, or a sector of track 0 other than the catalogue): then only the
                # decoder's recovery decides the outcome
                t = rng.choice([lba // s0.spt, last // s0.spt, 0, rng.randint(lba // s0.spt, last // s0.spt)])
                outside = [r for r in range(s0.spt) if not (lba <= t * s0.spt + r <= last) and not (t == 0 and r < 2)]
                for _ in range(rng.randint(1, 2)):
                    rec = rng.choice(outside) if outside and rng.chance(0.8) else rng.below(s0.spt)
                    op = {'k': 'drop', 'region': rng.choice(['gap2', 'gap2', 'gap2', 'sync', 'datamark']), 'rec': rec, 'off': rng.choice([0, 0, 100, 590]),
                          'len': rng.choice([48, 600, 2000]), 'v': rng.weighted([(3, 0), (1, 1)])}
                    if rng.chance(0.6):
                        # a track that lacks its highest-numbered (or lowest-numbered) record is still usable, one that
                        # lacks a record in between is not: losing these is survivable, so the recovery path shows
                        rec = rng.weighted([(4, s0.spt - 1), (4, 0)])
                        op.update(rec=rec, region='gap2', off=0, len=rng.choice([600, 2000]), v=0)
                        if fc.get('order') in (None, 'seq') and rng.chance(0.7):
                            # ... provided another record follows it physically
                            fc['order'] = rng.choice(['skew', 'interleave2', 'random'])
                    image['damage'].setdefault('0:%d' % t, []).append(op)
                cmd = [rng.choice(['type', 'dump', 'list']), dfswork.fsp(v, f, 0, 'full')]
                aimed = True
        variants = []
        if cmd_override:
            # (the styles differ most in the catalogue header: title, cycle number, density line)
            variants.append({'k': 'ui', 'ui': 'opus', 'pos': rng.choice(['pre', 'post'])})
            variants.append({'k': 'ui', 'ui': rng.choice(['watford', 'acorn']), 'pos': 'pre'})
        if not aimed and src in ('flux', 'genflux') and rng.chance(0.6):
            # flux containers are decoded while --file is processed: only a --verbose in front of it can reach the decoders
            variants.append({'k': 'diag', 'opts': ['--verbose'], 'pos': 'pre'})
        if aimed:
            # options take effect in command-line order: only a --verbose in front of --file reaches the track decoder
            variants.append({'k': 'diag', 'opts': ['--verbose'], 'pos': 'pre'})
        for _ in range(rng.randint(2, 4)):
            k = rng.weighted([(4, 'diag'), (3, 'ui'), (3, 'columns'), (3, 'noise'), (2, 'order')])
            v = {'k': k}
            if k == 'diag':
                v['opts'] = rng.choice([['--verbose'], ['--show-config'], ['--verbose', '--show-config'], ['--show-config', '--verbose']])
                v['pos'] = rng.choice(['pre', 'post', 'split'])
                if rng.chance(0.3):
                    v['errfault'] = 1 + rng.below(1 << 30)
                    v['pos'] = 'pre'
            elif k == 'ui':
                v['ui'] = rng.choice(UIS)
                v['pos'] = rng.choice(['pre', 'post'])
            elif k == 'columns':
                v['columns'] = rng.choice(COLUMNS)
                v['tty'] = rng.chance(0.8)
                v['ui'] = rng.choice(UIS + [None, None])
            elif k == 'order':
                v['perm'] = rng.below(720)
            else:
                v['aslr'] = rng.chance(0.7)
                v['perturb'] = rng.choice([None, '1', '85', '170', '255'])
                v['env_pad'] = rng.choice([0, 1, 100, 4000])
                v['extra_fds'] = rng.choice([0, 1, 7])
            variants.append(v)
        base_ui = rng.choice([None, None] + UIS)
        base_verbose = rng.chance(0.15)
        base_globals = []
        if image.get('surfaces') and rng.chance(0.4):
            s0 = dfswork.surface_of({'surface': image['surfaces'][0]})
            v = rng.choice(s0.volumes)
            base_globals += ['--drive', '0' + (v.label or '')]
            if rng.chance(0.4):
                dirs = sorted(set(chr(f.dir) for f in v.files if 0x21 <= f.dir < 0x7F)) or ['$']
                base_globals += ['--dir', rng.choice(dirs)]
            if cmd and cmd[0] in ('cat', 'free', 'space', 'info', 'sector-map'):
                cmd = cmd[:1] if cmd[0] != 'info' else ['info', '*.*']
        return {'image': image, 'ops': ops, 'cmd': cmd, 'variants': variants, 'base_ui': base_ui, 'base_verbose': base_verbose, 'base_globals': base_globals,
                'gz': rng.chance(0.1)}

    def run_case(self, case, ctx):
        out = Outcome()
        sb = ctx.sb
        name, data = c07.CHECK.materialise({'image': case['image'], 'ops': case['ops'], 'gz': 'valid' if case['gz'] else None, 'gz_ops': []})
        sb.reset({name: data})
        exe = ctx.exe('rel', 'dfs')
        src = 'flux' if 'flux_base' in case['image'] else ('genflux' if 'genflux' in case['image'] else 'generated')
        if case['ops']:
            src += '-damaged'

        def run(pre, post, **kw):
            argv = ['dfs'] + pre + ['--file', name] + post + case['cmd']
            return ctx.sk.run(sb, exe, argv, **kw), argv

        bpre = ['--verbose'] if case['base_verbose'] else []
        bg = case.get('base_globals') or []
        bpost = bg + (['--ui', case['base_ui']] if case['base_ui'] else [])
        base, bargv = run(bpre, bpost)
        out.add_run(base, ref=True)
        if base.code is None:
            out.skip('base-run-abnormal(C07)')
            return out
        is_cat = case['cmd'][0] == 'cat'
        for v in case['variants']:
            k = v['k']
            desc = {'variant': k, 'command': case['cmd'][0]}
            if k == 'diag':
                pre, post = list(bpre), list(bpost)
                if v['pos'] == 'pre':
                    pre = v['opts'] + pre
                elif v['pos'] == 'post':
                    post = post + v['opts']
                else:
                    pre = v['opts'][:1] + pre
                    post = post + v['opts'][1:]
                r, argv = run(pre, post)
                out.add_run(r)
                out.fault('diag-options', True)
                out.sig(src, case['cmd'][0], 'diag:' + '+'.join(v['opts']) + v['pos'], r.exit_class(), r['log_hash'])
                if r.exit_class() != base.exit_class() or r['stdout'] != base['stdout']:
                    out.violate('C18.a', '%s vs %s: %s -> %s, stdout %s' % (' '.join(bargv[1:]), ' '.join(argv[1:]), base.exit_class(), r.exit_class(),
                                                                           'identical' if r['stdout'] == base['stdout'] else 'differs'), desc, self.atom(case, v))
                if v.get('errfault') and '--verbose' in v['opts'] and src.startswith('generated') and not r.timeout:
                    # the diagnostics themselves may fail to be written (stderr on a full device, a closed pipe): that is
                    # no reason for the command to compute anything else.  One run per chosen write boundary of stderr.
                    import re
                    t = run(pre, post, untraced_stderr=False, want_log=True, steps=2000000)[0]
                    out.add_run(t, ref=True)
                    ends, tot = [0], 0
                    for m in re.finditer(r'write stderr want (\d+) -> (\d+)', t.get('log', '')):
                        tot += int(m.group(2))
                        ends.append(tot)
                    ends = ends[:-1] or [0]
                    from sim.prng import Rng
                    frng = Rng.derive(v['errfault'], 'errfault')
                    for K in sorted(set(frng.choice(ends) for _ in range(8))):
                        rf = run(pre, post, untraced_stderr=False, steps=2000000,
                                 faults=[{'op': 'wfail', 'target': 'stderr', 'errno': frng.choice(['EIO', 'ENOSPC', 'EPIPE']), 'at': K}])[0]
                        out.add_run(rf)
                        out.fault('stderr-wfail', rf.fired() > 0)
                        if rf.exit_class() != base.exit_class() or rf['stdout'] != base['stdout']:
                            out.violate('C18.a', '%s vs %s with stderr refusing writes from byte %d: %s -> %s, stdout %s' % (
                                ' '.join(bargv[1:]), ' '.join(argv[1:]), K, base.exit_class(), rf.exit_class(),
                                'identical' if rf['stdout'] == base['stdout'] else 'differs'), dict(desc, variant='diag+stderr-fault'), self.atom(case, v))
                            break
            elif k in ('ui', 'columns'):
                pre, post = list(bpre), list(bg)
                ui = v.get('ui')
                if ui:
                    if v.get('pos') == 'pre':
                        pre = pre + ['--ui', ui]
                    else:
                        post = post + ['--ui', ui]
                elif case['base_ui']:
                    post = list(bpost)
                env = []
                kw = {}
                if k == 'columns':
                    if v['columns'] is not None:
                        env = ['COLUMNS=' + v['columns']]
                    kw['stdout_kind'] = 'tty' if v['tty'] else 'file'
                r, argv = run(pre, post, env=env, **kw)
                out.add_run(r)
                out.fault('presentation-' + k, True)
                out.sig(src, case['cmd'][0], k + ':' + str(ui) + ':' + str(v.get('columns')) + ':' + str(v.get('tty')), r.exit_class(), r['log_hash'])
                label = '%s vs %s%s' % (' '.join(bargv[1:]), ' '.join(argv[1:]),
                                        (' [COLUMNS=%r, stdout %s]' % (v['columns'], 'tty' if v['tty'] else 'file')) if k == 'columns' else '')
                if r.exit_class() != base.exit_class():
                    out.violate('C18.b', '%s: %s -> %s' % (label, base.exit_class(), r.exit_class()), desc, self.atom(case, v))
                elif not is_cat:
                    if r['stdout'] != base['stdout']:
                        out.violate('C18.b', '%s: stdout differs for a command other than cat' % label, desc, self.atom(case, v))
                elif base.code == 0:
                    tb, tv = tokenise_cat(base['stdout']), tokenise_cat(r['stdout'])
                    if tb != tv:
                        diff = [kk for kk in tb[0] if tb[0][kk] != tv[0].get(kk)]
                        out.violate('C18.c', '%s: catalogue content differs (%s)' % (label, ('fields ' + ','.join(diff)) if diff else
                                                                                     'entries %s vs %s' % ([e for e in tb[1] if e not in tv[1]][:3], [e for e in tv[1] if e not in tb[1]][:3])),
                                    desc, self.atom(case, v))
                elif r['stdout'] != base['stdout']:
                    out.violate('C18.b', '%s: failing cat printed different stdout' % label, desc, self.atom(case, v))
            elif k == 'order':
                # the same settings in another order (each group is one option with its argument; --file is one of them)
                groups = [['--file', name]]
                if case['base_verbose']:
                    groups.append(['--verbose'])
                i = 0
                while i < len(bg):
                    groups.append(bg[i:i + 2])
                    i += 2
                if case['base_ui']:
                    groups.append(['--ui', case['base_ui']])
                if len(groups) < 2:
                    continue
                import itertools
                perms = list(itertools.permutations(range(len(groups))))
                perm = perms[v['perm'] % len(perms)]
                argv = ['dfs'] + [x for gi in perm for x in groups[gi]] + case['cmd']
                r = ctx.sk.run(sb, exe, argv)
                out.add_run(r)
                out.fault('option-order', True)
                out.sig(src, case['cmd'][0], 'order', r.exit_class(), r['log_hash'])
                if r.exit_class() != base.exit_class() or r['stdout'] != base['stdout']:
                    out.violate('C18.e', '%s vs the same options in another order (%s): %s -> %s, stdout %s' % (
                        ' '.join(bargv[1:]), ' '.join(argv[1:]), base.exit_class(), r.exit_class(), 'identical' if r['stdout'] == base['stdout'] else 'differs'),
                        desc, self.atom(case, v))
            else:
                env = []
                if v['perturb']:
                    env.append('MALLOC_PERTURB_=' + v['perturb'])
                if v['env_pad']:
                    env.append('VERIF_PAD=' + 'x' * v['env_pad'])
                r, argv = run(bpre, bpost, env=env, aslr=1 if v['aslr'] else 0, extra_fds=v['extra_fds'])
                out.add_run(r)
                out.fault('env-noise', True)
                out.sig(src, case['cmd'][0], 'noise', r.exit_class(), r['log_hash'])
                if r.exit_class() != base.exit_class() or r['stdout'] != base['stdout'] or r['stderr'] != base['stderr']:
                    what = [n for n, a, b in (('exit', r.exit_class(), base.exit_class()), ('stdout', r['stdout'], base['stdout']), ('stderr', r['stderr'], base['stderr'])) if a != b]
                    out.violate('C18.d', '%s run twice (second time with aslr=%s MALLOC_PERTURB_=%s env+%d fds+%d): %s differ'
                                % (' '.join(bargv[1:]), v['aslr'], v['perturb'], v['env_pad'], v['extra_fds'], ','.join(what)), desc, self.atom(case, v))
        return out

    def atom(self, case, v):
        return dict(case, variants=[v])

    def group_key(self, v):
        d = v['desc']
        return (d.get('variant'), d.get('command'))

    def shrink(self, case, clause):
        if case['ops']:
            for i in range(len(case['ops'])):
                yield dict(case, ops=case['ops'][:i] + case['ops'][i + 1:])
        if case['base_ui']:
            yield dict(case, base_ui=None)
        if case['base_verbose']:
            yield dict(case, base_verbose=False)
        if case.get('base_globals'):
            yield dict(case, base_globals=case['base_globals'][:2] if len(case['base_globals']) > 2 else [])
        if case['gz']:
            yield dict(case, gz=False)
        image = case['image']
        if image.get('surfaces'):
            for si, surf in enumerate(image['surfaces']):
                for vi, v in enumerate(surf['volumes']):
                    files = v['files']
                    for i in range(len(files) - 1, -1, -1):
                        v2 = dict(v, files=files[:i] + files[i + 1:])
                        s2 = dict(surf, volumes=surf['volumes'][:vi] + [v2] + surf['volumes'][vi + 1:])
                        yield dict(case, image=dict(image, surfaces=image['surfaces'][:si] + [s2] + image['surfaces'][si + 1:]))


CHECK = C18()
