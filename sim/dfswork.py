"""Shared dfs workload helpers: disc cases, image files, command menu."""

from .models import dfsdisc as dd


def gen_disc(rng, variant=None, density=None, identifiable=True, img_id=1):
    """Returns dict {'surface': json, 'ext': 'ssd'|'sdd'} for a one-sided image whose
    geometry the documented probing rules identify (unless identifiable=False)."""
    for _ in range(50):
        s = dd.gen_surface(rng, variant=variant, density=density, img_id=img_id)
        ext = 'ssd' if s.spt == 10 else 'sdd'
        if not identifiable or dd.geometry_is_identifiable(s, ext):
            return {'surface': s.to_json(), 'ext': ext}
    raise RuntimeError('could not generate an identifiable disc')


def surface_of(disc):
    return dd.Surface.from_json(disc['surface'])


def fsp(vol, f, drive=0, form='full'):
    """A file specification for catalogue entry f of volume vol."""
    name = f.name.decode('latin-1')
    d = chr(f.dir)
    lab = vol.label or ''
    if form == 'full':
        return ':%s%s.%s.%s' % (drive, lab, d, name)
    if form == 'dir':
        return '%s.%s' % (d, name)
    return name


def safe_for_cmdline(f):
    """Names that survive being passed as a plain argument (no leading '-', no ':' or '.')."""
    n = f.name
    return len(n) > 0 and all(0x21 <= c < 0x7F and c not in b'.:#*"' for c in n) and chr(f.dir) not in '.:#*" '


READ_CMDS = ['cat', 'info', 'type', 'type-binary', 'list', 'dump', 'dump-sector', 'free', 'space', 'sector-map',
             'show-titles', 'help', 'help-cmd', 'global-help']

CMD_NAMES = ['cat', 'dump', 'dump-sector', 'extract-files', 'extract-unused', 'free', 'help', 'info', 'list',
             'sector-map', 'show-titles', 'space', 'type']


def gen_read_command(rng, s, cmd=None, drive=0):
    """Returns argv tail (after the --file options) for a read-only command on surface s."""
    cmd = cmd or rng.choice(READ_CMDS)
    files = [(v, f) for v, f in s.all_files() if safe_for_cmdline(f)]
    vol0 = s.volumes[0]
    dv = '%d%s' % (drive, vol0.label or '')
    if cmd in ('type', 'type-binary', 'list', 'dump'):
        if not files:
            cmd = 'cat'
        else:
            v, f = rng.choice(files)
            name = fsp(v, f, drive)
            if cmd == 'type-binary':
                return ['type', '--binary', name]
            return [cmd, name]
    if cmd == 'cat':
        return ['cat'] if rng.chance(0.5) else ['cat', dv]
    if cmd == 'info':
        v = rng.choice(s.volumes)
        return ['info', ':%d%s.*.*' % (drive, v.label or '')] if rng.chance(0.7) else ['info', ':%d%s.$.*' % (drive, v.label or '')]
    if cmd == 'dump-sector':
        return ['dump-sector', str(drive), str(rng.below(s.tracks)), str(rng.below(s.spt))]
    if cmd == 'free':
        return ['free'] if rng.chance(0.5) else ['free', dv]
    if cmd == 'space':
        return ['space'] if rng.chance(0.5) else ['space', dv]
    if cmd == 'sector-map':
        return ['sector-map'] if rng.chance(0.5) else ['sector-map', str(drive)]
    if cmd == 'show-titles':
        return ['show-titles'] if rng.chance(0.5) else ['show-titles', str(drive)]
    if cmd == 'help':
        return ['help']
    if cmd == 'help-cmd':
        return ['help', rng.choice(CMD_NAMES)]
    if cmd == 'global-help':
        return ['--help']
    return [cmd]


# ------------------------------------------------------------------ multi-surface images

def gen_image(rng, kind=None, img_id=1):
    """An image file description:
       {'ext': 'ssd'|'sdd'|'dsd'|'ddd'|'mmb', 'surfaces': [surface json...], 'slots': {slot: [status, surface_idx|None]}}
    Surfaces of one image share img_id and differ in 'side'."""
    kind = kind or rng.weighted([(5, 'single'), (3, 'interleaved'), (2, 'mmb'), (2, 'two-sided')])
    if kind == 'two-sided':
        # both sides one after the other in a non-interleaved file
        im = gen_image(rng, kind='interleaved', img_id=img_id)
        im['ext'] = 'ssd' if im['ext'] == 'dsd' else 'sdd'
        return im
    if kind == 'single':
        d = gen_disc(rng, img_id=img_id)
        return {'ext': d['ext'], 'surfaces': [d['surface']]}
    if kind == 'interleaved':
        for _ in range(50):
            s0 = dd.gen_surface(rng, variant=rng.choice(['acorn', 'watford', 'acorn']), img_id=img_id, side=0)
            ext = 'dsd' if s0.spt == 10 else 'ddd'
            if not dd.geometry_is_identifiable(s0, ext):
                continue
            s1 = dd.gen_surface(rng, variant=rng.choice(['acorn', 'watford']), img_id=img_id, side=1, geom=(s0.tracks, s0.spt))
            return {'ext': ext, 'surfaces': [s0.to_json(), s1.to_json()]}
        raise RuntimeError('no interleaved image')
    # mmb: 1..5 populated slots among the first few (file size grows with the highest slot)
    nslots = rng.randint(1, 5)
    hi = rng.weighted([(4, nslots - 1), (3, nslots + rng.randint(0, 3)), (1, nslots + rng.randint(4, 12))])
    chosen = sorted(rng.sample(range(hi + 1), min(nslots, hi + 1)))
    surfaces = []
    slots = {}
    for k, sl in enumerate(chosen):
        s = dd.gen_surface(rng, variant=rng.choice(['acorn', 'acorn', 'watford']), img_id=img_id, side=k, geom=(80, 10))
        surfaces.append(s.to_json())
        slots[str(sl)] = [rng.choice([0x00, 0x0F]), k]
    for sl in range(hi + 1):
        if str(sl) not in slots and rng.chance(0.4):
            slots[str(sl)] = [rng.choice([0xF0, 0xFF]), None]
    return {'ext': 'mmb', 'surfaces': surfaces, 'slots': slots}


def render_image(image):
    surfs = [dd.Surface.from_json(s) for s in image['surfaces']]
    ext = image['ext']
    if ext in ('ssd', 'sdd'):
        return dd.ssd_image([s.render() for s in surfs])
    if ext in ('dsd', 'ddd'):
        return dd.dsd_image(surfs[0].render(), surfs[1].render(), surfs[0].spt)
    slots = {}
    for sl, (status, idx) in image['slots'].items():
        if idx is None:
            slots[int(sl)] = (status, b'', None)
        else:
            s = surfs[idx]
            slots[int(sl)] = (status, s.volumes[0].title, s.render())
    data = dd.mmb_image(slots)
    if image.get('boot'):
        # the four boot-time slot numbers that open the MMB table (any values; low bytes of the slot numbers)
        data = bytes(image['boot'][:4]) + data[4:]
    return data


def image_drives(image, policy='physical', first_free=0):
    """Drive numbers (relative, assuming an empty configuration) of each surface index.
    Returns list of (drive, surface_idx or None for unformatted)."""
    ext = image['ext']
    if ext in ('ssd', 'sdd', 'hfe', 'mfm'):
        n = len(image['surfaces'])
        return [(0, 0)] if n == 1 else ([(0, 0), (2, 1)] if policy == 'physical' else [(0, 0), (1, 1)])
    if ext in ('dsd', 'ddd'):
        return [(0, 0), (2, 1)] if policy == 'physical' else [(0, 0), (1, 1)]
    out = []
    for sl in range(511):
        ent = image['slots'].get(str(sl))
        d = sl * 2 if policy == 'physical' else sl
        out.append((d, ent[1] if ent else None))
    return out
