"""Shared dfs workload helpers: disc cases, image files, command menu."""

from .models import dfsdisc as dd


def gen_disc(rng, variant=None, density=None, identifiable=True, img_id=1):
    """Returns dict {'surface': json, 'ext': 'ssd'|'sdd'} for a one-sided image whose
    geometry the documented probing rules identify (unless identifiable=False)."""
    for _ in range(50):
        s = dd.gen_surface(rng, variant=variant, density=density, img_id=img_id)
        ext = 'ssd' if s.spt == 10 else 'sdd'
        if not identifiable or dd.geometry_is_identifiable(s, ext):
            return {'surface': s.to_json(), 'ext': ext}
    raise RuntimeError('could not generate an identifiable disc')


def surface_of(disc):
    return dd.Surface.from_json(disc['surface'])


def fsp(vol, f, drive=0, form='full'):
    """A file specification for catalogue entry f of volume vol."""
    name = f.name.decode('latin-1')
    d = chr(f.dir)
    lab = vol.label or ''
    if form == 'full':
        return ':%d%s.%s.%s' % (drive, lab, d, name)
    if form == 'dir':
        return '%s.%s' % (d, name)
    return name


def safe_for_cmdline(f):
    """Names that survive being passed as a plain argument (no leading '-', no ':' or '.')."""
    n = f.name
    return len(n) > 0 and all(0x21 <= c < 0x7F and c not in b'.:#*"' for c in n) and chr(f.dir) not in '.:#*" '


READ_CMDS = ['cat', 'info', 'type', 'type-binary', 'list', 'dump', 'dump-sector', 'free', 'space', 'sector-map',
             'show-titles', 'help', 'help-cmd', 'global-help']

CMD_NAMES = ['cat', 'dump', 'dump-sector', 'extract-files', 'extract-unused', 'free', 'help', 'info', 'list',
             'sector-map', 'show-titles', 'space', 'type']


def gen_read_command(rng, s, cmd=None, drive=0):
    """Returns argv tail (after the --file options) for a read-only command on surface s."""
    cmd = cmd or rng.choice(READ_CMDS)
    files = [(v, f) for v, f in s.all_files() if safe_for_cmdline(f)]
    vol0 = s.volumes[0]
    dv = '%d%s' % (drive, vol0.label or '')
    if cmd in ('type', 'type-binary', 'list', 'dump'):
        if not files:
            cmd = 'cat'
        else:
            v, f = rng.choice(files)
            name = fsp(v, f, drive)
            if cmd == 'type-binary':
                return ['type', '--binary', name]
            return [cmd, name]
    if cmd == 'cat':
        return ['cat'] if rng.chance(0.5) else ['cat', dv]
    if cmd == 'info':
        v = rng.choice(s.volumes)
        return ['info', ':%d%s.*.*' % (drive, v.label or '')] if rng.chance(0.7) else ['info', ':%d%s.$.*' % (drive, v.label or '')]
    if cmd == 'dump-sector':
        return ['dump-sector', str(drive), str(rng.below(s.tracks)), str(rng.below(s.spt))]
    if cmd == 'free':
        return ['free'] if rng.chance(0.5) else ['free', dv]
    if cmd == 'space':
        return ['space'] if rng.chance(0.5) else ['space', dv]
    if cmd == 'sector-map':
        return ['sector-map'] if rng.chance(0.5) else ['sector-map', str(drive)]
    if cmd == 'show-titles':
        return ['show-titles'] if rng.chance(0.5) else ['show-titles', str(drive)]
    if cmd == 'help':
        return ['help']
    if cmd == 'help-cmd':
        return ['help', rng.choice(CMD_NAMES)]
    if cmd == 'global-help':
        return ['--help']
    return [cmd]
