"""Self-contained PRNG (splitmix64) so that streams are stable across Python
versions and independent of PYTHONHASHSEED.  One integer decides everything."""

MASK = (1 << 64) - 1


def _mix(z):
    z = (z + 0x9E3779B97F4A7C15) & MASK
    z = ((z ^ (z >> 30)) * 0xBF58476D1CE4E5B9) & MASK
    z = ((z ^ (z >> 27)) * 0x94D049BB133111EB) & MASK
    return z ^ (z >> 31)


def hash64(*parts):
    """Stable 64-bit hash of a tuple of ints/strings/bytes."""
    h = 0x243F6A8885A308D3
    for p in parts:
        if isinstance(p, int):
            b = p.to_bytes(16, 'little', signed=True)
        elif isinstance(p, str):
            b = p.encode('utf-8')
        else:
            b = bytes(p)
        h = _mix(h ^ len(b))
        for i in range(0, len(b), 8):
            h = _mix(h ^ int.from_bytes(b[i:i + 8], 'little'))
    return h


class Rng:
    def __init__(self, seed):
        self.s = seed & MASK

    @classmethod
    def derive(cls, *parts):
        return cls(hash64(*parts))

    def fork(self, *parts):
        return Rng(hash64(self.next64(), *parts))

    def next64(self):
        self.s = (self.s + 0x9E3779B97F4A7C15) & MASK
        z = self.s
        z = ((z ^ (z >> 30)) * 0xBF58476D1CE4E5B9) & MASK
        z = ((z ^ (z >> 27)) * 0x94D049BB133111EB) & MASK
        return z ^ (z >> 31)

    def below(self, n):
        """uniform in [0, n)"""
        if n <= 0:
            raise ValueError("below(%r)" % (n,))
        return self.next64() % n   # bias is irrelevant here

    def randint(self, a, b):
        return a + self.below(b - a + 1)

    def chance(self, p):
        return (self.next64() >> 11) / float(1 << 53) < p

    def choice(self, seq):
        return seq[self.below(len(seq))]

    def weighted(self, pairs):
        """pairs: list of (weight, value)"""
        total = sum(w for w, _ in pairs)
        x = self.below(total)
        for w, v in pairs:
            if x < w:
                return v
            x -= w
        return pairs[-1][1]

    def bytes(self, n):
        out = bytearray()
        while len(out) < n:
            out += self.next64().to_bytes(8, 'little')
        return bytes(out[:n])

    def shuffle(self, lst):
        for i in range(len(lst) - 1, 0, -1):
            j = self.below(i + 1)
            lst[i], lst[j] = lst[j], lst[i]
        return lst

    def sample(self, seq, k):
        lst = list(seq)
        self.shuffle(lst)
        return lst[:k]
