"""Orchestrator: seeds, case generation, parallel execution, determinism gate,
minimisation, replay files, known findings, evidence."""

import base64
import hashlib
import importlib
import json
import multiprocessing
import os
import shutil
import subprocess
import sys
import time
import traceback

from . import builds, e1
from .prng import Rng, hash64

VERIF = builds.VERIF
# evidence and replay files of runs against a scratch copy of the repository (self-tests, background sweeps) must not
# overwrite those of the registered checks, which always run against /repo itself
OUTDIR = VERIF if os.path.realpath(builds.REPO) == '/repo' else builds.BUILD
SHM = '/dev/shm' if os.path.isdir('/dev/shm') else '/var/tmp'


# ----------------------------------------------------------------- JSON with bytes

def _enc(o):
    if isinstance(o, (bytes, bytearray)):
        return {'__b64__': base64.b64encode(bytes(o)).decode('ascii')}
    if isinstance(o, tuple):
        return {'__tuple__': [_enc(x) for x in o]}
    if isinstance(o, dict):
        return {str(k): _enc(v) for k, v in o.items()}
    if isinstance(o, list):
        return [_enc(x) for x in o]
    return o


def _dec(o):
    if isinstance(o, dict):
        if '__b64__' in o and len(o) == 1:
            return base64.b64decode(o['__b64__'])
        if '__tuple__' in o and len(o) == 1:
            return tuple(_dec(x) for x in o['__tuple__'])
        return {k: _dec(v) for k, v in o.items()}
    if isinstance(o, list):
        return [_dec(x) for x in o]
    return o


def dumps(o, **kw):
    return json.dumps(_enc(o), sort_keys=True, **kw)


def loads(s):
    return _dec(json.loads(s))


def digest(o):
    return hashlib.sha256(dumps(o).encode('utf-8')).hexdigest()[:16]


def brief(o, limit=160):
    """A printable, size-limited rendering of a case for evidence samples."""
    if isinstance(o, (bytes, bytearray)):
        if len(o) <= 24:
            return 'hex:' + bytes(o).hex()
        return 'bytes[%d] sha256=%s head=%s' % (len(o), hashlib.sha256(bytes(o)).hexdigest()[:12], bytes(o[:12]).hex())
    if isinstance(o, dict):
        return {str(k): brief(v, limit) for k, v in o.items()}
    if isinstance(o, (list, tuple)):
        if len(o) > 24:
            return [brief(x, limit) for x in o[:24]] + ['... %d more' % (len(o) - 24)]
        return [brief(x, limit) for x in o]
    if isinstance(o, str) and len(o) > limit:
        return o[:limit] + '...[%d chars]' % len(o)
    return o


# ----------------------------------------------------------------- outcome

class Outcome:
    """What run_case reports.  Everything is JSON-able."""

    def __init__(self):
        self.violations = []     # dicts: clause, desc, explain, case (atomic reproducer or None)
        self.runs = 0            # simulated runs (faulted or strict)
        self.ref_runs = 0        # reference (fault-free baseline) runs
        self.steps = 0           # simulated steps (trapped syscalls / E2 ops)
        self.clock_reads = 0     # readings of the simulated clock (E1)
        self.random_bytes = 0    # bytes served by the simulated getrandom (E1)
        self.faults = {}         # kind -> [configured, delivered]
        self.probes = {}         # name -> count
        self.sigs = []           # distinct-nontrivial signatures (strings)
        self.hashes = []         # event-log hashes, in run order (determinism digest)
        self.sample = None
        self.skipped = {}        # reason -> count

    def add_run(self, r, ref=False):
        if ref:
            self.ref_runs += 1
        else:
            self.runs += 1
        self.steps += r.get('steps', 0)
        self.clock_reads += r.get('clock_reads', 0)
        self.random_bytes += r.get('random_bytes', 0)
        h = r.get('log_hash')
        if h:
            self.hashes.append(h)

    def fault(self, kind, delivered):
        c = self.faults.setdefault(kind, [0, 0])
        c[0] += 1
        if delivered:
            c[1] += 1

    def probe(self, name, n=1):
        self.probes[name] = self.probes.get(name, 0) + n

    def skip(self, why):
        self.skipped[why] = self.skipped.get(why, 0) + 1

    def sig(self, *parts):
        self.sigs.append('|'.join(str(p) for p in parts))

    def violate(self, clause, explain, desc=None, case=None):
        self.violations.append({'clause': clause, 'explain': explain, 'desc': desc or {}, 'case': case})

    def to_dict(self):
        return {'violations': self.violations, 'runs': self.runs, 'ref_runs': self.ref_runs, 'steps': self.steps,
                'faults': self.faults, 'probes': self.probes, 'sigs': self.sigs, 'hashes': self.hashes,
                'sample': self.sample, 'skipped': self.skipped, 'clock_reads': self.clock_reads, 'random_bytes': self.random_bytes}


def outcome_digest(od):
    v = [(x['clause'], dumps(x['desc'])) for x in od['violations']]
    return digest({'v': v, 'h': od['hashes'], 's': od['sigs'], 'r': [od['runs'], od['ref_runs'], od['steps']]})


# ----------------------------------------------------------------- worker context

class Ctx:
    def __init__(self, check, tier, paths, base):
        self.check = check
        self.tier = tier
        self.paths = paths
        self.base = base
        self.sb = e1.Sandbox(os.path.join(base, 'sb'))
        self.sk = e1.SimKernel(paths['engines']['simkernel'])
        self._e2 = None
        self.deadline = None

    def expired(self):
        """True once the batch's wall-clock cap has passed: long inner enumerations stop early."""
        return self.deadline is not None and time.time() > self.deadline

    @property
    def e2(self):
        if self._e2 is None:
            from . import e2
            self._e2 = e2.SimDisk(self.paths['simdisk']['simdisk'])
        return self._e2

    def exe(self, build, tool):
        return self.paths[build][tool]

    def close(self):
        self.sk.stop()
        if self._e2 is not None:
            self._e2.stop()


_W = {}


def _worker_init(check_mod, tier, paths, base_root, deadline=None):
    mod = importlib.import_module(check_mod)
    check = mod.CHECK
    base = os.path.join(base_root, 'w%010d' % os.getpid())
    os.makedirs(base, exist_ok=True)
    _W['ctx'] = Ctx(check, tier, paths, base)
    _W['ctx'].deadline = deadline
    _W['check'] = check


def _worker_run(job):
    seed, tier, index = job
    check = _W['check']
    ctx = _W['ctx']
    t0 = time.time()
    try:
        rng = Rng.derive(seed, check.id, tier, index)
        case = check.gen_case(rng, tier, index)
        out = check.run_case(case, ctx)
        od = out.to_dict()
        od['index'] = index
        od['wall'] = time.time() - t0
        od['error'] = None
        if od['sample'] is None and index < 4:
            od['sample'] = brief(case)
        return od
    except Exception:
        try:
            ctx.sk.stop()
        except Exception:
            pass
        return {'index': index, 'error': traceback.format_exc(), 'violations': [], 'runs': 0, 'ref_runs': 0,
                'steps': 0, 'faults': {}, 'probes': {}, 'sigs': [], 'hashes': [], 'sample': None, 'skipped': {},
                'wall': time.time() - t0}


def _worker_run_case(case_json):
    """Run an explicit (atomic) case; used by gate/shrink."""
    check = _W['check']
    ctx = _W['ctx']
    try:
        case = loads(case_json)
        out = check.run_case(case, ctx)
        od = out.to_dict()
        od['error'] = None
        return od
    except Exception:
        try:
            ctx.sk.stop()
        except Exception:
            pass
        return {'error': traceback.format_exc(), 'violations': [], 'hashes': [], 'sigs': [], 'runs': 0, 'ref_runs': 0, 'steps': 0}


# ----------------------------------------------------------------- known findings

def load_findings():
    p = os.path.join(VERIF, 'known_findings.json')
    if not os.path.exists(p):
        return []
    with open(p) as f:
        return json.load(f).get('findings', [])


def match_finding(findings, prop, clause, desc):
    for f in findings:
        if f.get('property') != prop or f.get('status') != 'open':
            continue
        if f.get('clause') and f['clause'] != clause:
            continue
        sig = f.get('signature', {})
        ok = True
        for k, v in sig.items():
            dv = desc.get(k)
            if isinstance(v, list):
                if dv not in v:
                    ok = False
                    break
            elif dv != v:
                ok = False
                break
        if ok:
            return f
    return None


# ----------------------------------------------------------------- driver

def say(msg):
    sys.stderr.write(msg + '\n')
    sys.stderr.flush()


def run_check(check_mod, tier, seed, replay=None, max_cases=None, workers=None, time_cap=None):
    mod = importlib.import_module(check_mod)
    check = mod.CHECK
    t_start = time.time()
    print('VERIF_SEED=%d property=%s tier=%s' % (seed, check.id, tier))
    sys.stdout.flush()

    paths = builds.ensure(check.builds)
    if not e1.available(paths['engines']['simkernel']):
        print('E1 unavailable: ptrace/seccomp tracing is not permitted here; no verdict')
        return 2

    base_root = os.path.join(SHM, 'verif-%010d' % os.getpid())
    os.makedirs(base_root, exist_ok=True)
    nworkers = workers or int(os.environ.get('VERIF_WORKERS', '16'))
    ctxm = multiprocessing.get_context('fork')
    deadline = None if replay else t_start + (time_cap or check.time_cap(tier))
    pool = ctxm.Pool(nworkers, _worker_init, (check_mod, tier, paths, base_root, deadline))
    try:
        if replay:
            return _do_replay(check, pool, replay)
        return _do_run(check, check_mod, pool, tier, seed, t_start, max_cases, nworkers, time_cap)
    finally:
        pool.terminate()
        pool.join()
        shutil.rmtree(base_root, ignore_errors=True)


def _same_violation(od, clause, key=None):
    for v in od.get('violations', []):
        if v['clause'] == clause:
            return v
    return None


def _do_replay(check, pool, path):
    with open(path) as f:
        rp = loads(f.read())
    od = pool.apply(_worker_run_case, (dumps(rp['case']),))
    if od.get('error'):
        print('replay error:\n' + od['error'])
        return 2
    v = _same_violation(od, rp['clause'])
    if v:
        print('replayed: clause %s reproduced: %s' % (rp['clause'], v['explain']))
        print('VIOLATION property=%s replay=%s' % (check.id, path))
        return 1
    print('replay: clause %s NOT reproduced on this tree' % rp['clause'])
    return 0


def _do_run(check, check_mod, pool, tier, seed, t_start, max_cases, nworkers, time_cap):
    n = check.budget(tier)
    if max_cases:
        n = min(n, max_cases)
    cap = time_cap or check.time_cap(tier)
    jobs = [(seed, tier, i) for i in range(n)]
    results = {}
    errors = []
    done = 0
    truncated = False
    it = pool.imap_unordered(_worker_run, jobs, chunksize=1)
    for od in it:
        results[od['index']] = od
        if od.get('error'):
            errors.append((od['index'], od['error']))
        done += 1
        if time.time() - t_start > cap:
            truncated = True
            break
    if truncated:
        pool.terminate()
    if errors:
        print('HARNESS ERROR in %d case(s); first:\n%s' % (len(errors), errors[0][1]))
        return 2

    order = sorted(results)
    # -------- determinism sample: re-run a slice of the cases, compare digests
    det_checked = det_mismatch = 0
    if not truncated:
        k = check.det_sample(tier, len(order))
        if k:
            # cases that already carry a violation go through the gate (three runs) anyway; the sample is drawn
            # from the others, so that a program made nondeterministic by the very defect a check reports is not
            # mistaken for a nondeterministic harness
            # (and not from cases whose enumeration was cut short by the time cap, nor at all once the cap has passed:
            # a re-run would be cut at another point, which says nothing about determinism)
            clean = [i for i in order if not results[i]['violations'] and not results[i]['probes'].get('enumeration-cut-short')]
            if time.time() - t_start > cap:
                clean = []
                say('time cap reached: determinism re-run skipped')
            step = max(1, len(clean) // k)
            resample = [(seed, tier, i) for i in clean[::step][:k]]
            for od2 in pool.imap_unordered(_worker_run, resample, chunksize=1):
                if not od2.get('error') and od2['probes'].get('enumeration-cut-short'):
                    continue      # the cap passed while this one was being re-run
                det_checked += 1
                if od2.get('error') or outcome_digest(od2) != outcome_digest(results[od2['index']]):
                    det_mismatch += 1
                    say('determinism mismatch at case %d' % od2['index'])
    # (a mismatch is reported below: as "no verdict" unless reproducible violations were found as well, in which
    # case the program under test, not the harness, is the likely source and the violations stand on their own gate)

    # -------- aggregate
    agg = Outcome()
    sigset = set()
    hashset = set()
    samples = []
    viol = []
    for i in order:
        od = results[i]
        agg.runs += od['runs']
        agg.ref_runs += od['ref_runs']
        agg.steps += od['steps']
        agg.clock_reads += od.get('clock_reads', 0)
        agg.random_bytes += od.get('random_bytes', 0)
        for k, v in od['faults'].items():
            c = agg.faults.setdefault(k, [0, 0])
            c[0] += v[0]
            c[1] += v[1]
        for k, v in od['probes'].items():
            agg.probes[k] = agg.probes.get(k, 0) + v
        for k, v in od.get('skipped', {}).items():
            agg.skipped[k] = agg.skipped.get(k, 0) + v
        sigset.update(od['sigs'])
        hashset.update(od['hashes'])
        if od.get('sample') is not None and len(samples) < 5:
            samples.append({'case_index': i, 'case': od['sample']})
        for v in od['violations']:
            viol.append((i, v))

    # -------- violations: group, gate, minimise, replay
    findings = load_findings()
    groups = {}
    for i, v in viol:
        key = (v['clause'], check.group_key(v))
        groups.setdefault(key, []).append((i, v))
    new_violations = []
    known_hits = []
    nondet = False
    os.makedirs(os.path.join(OUTDIR, 'replays'), exist_ok=True)
    gkeys = sorted(groups, key=lambda k: groups[k][0][0])
    processed = 0
    unprocessed = []
    for key in gkeys:
        i, v = groups[key][0]
        if processed >= check.max_groups:
            unprocessed.append((key, v, len(groups[key])))
            continue
        processed += 1
        case = v['case']
        if case is None:
            # regenerate the whole case
            case = check.gen_case(Rng.derive(seed, check.id, tier, i), tier, i)
        cj = dumps(case)
        # gate: two more runs in (probably) different worker processes
        g = [pool.apply(_worker_run_case, (cj,)) for _ in range(2)]
        if any(x.get('error') for x in g):
            print('HARNESS ERROR while gating:\n%s' % [x.get('error') for x in g if x.get('error')][0])
            return 2
        # a clause named *.nondet reports that identical plans gave different results: its event-log hashes cannot
        # be expected to repeat, only the verdict
        if not all(_same_violation(x, v['clause']) for x in g) or (g[0]['hashes'] != g[1]['hashes'] and not v['clause'].endswith('.nondet')):
            say('gate failed for %s case %d: not reproducible' % (key, i))
            nondet = True
            continue
        # minimise
        reruns = 0
        cur = case
        improved = True
        while improved and reruns < check.max_shrink_runs:
            improved = False
            for cand in check.shrink(cur, v['clause']):
                reruns += 1
                od = pool.apply(_worker_run_case, (dumps(cand),))
                if not od.get('error') and _same_violation(od, v['clause']):
                    cur = cand
                    improved = True
                    break
                if reruns >= check.max_shrink_runs:
                    break
        od = pool.apply(_worker_run_case, (dumps(cur),))
        vmin = _same_violation(od, v['clause']) or v
        rp = {'property': check.id, 'clause': v['clause'], 'seed': seed, 'tier': tier, 'case_index': i,
              'case': cur, 'desc': vmin['desc'], 'explain': vmin['explain'],
              'minimised': {'reruns': reruns, 'from_size': len(cj), 'to_size': len(dumps(cur))},
              'engine': check.engine, 'check_module': check_mod}
        fname = '%s-%d-%d-%s.json' % (check.id, seed, i, digest(key)[:6])
        rpath = os.path.join(OUTDIR, 'replays', fname)
        with open(rpath, 'w') as f:
            f.write(dumps(rp, indent=1))
        # fresh-process replay
        p = subprocess.run([sys.executable, os.path.join(VERIF, 'bin', 'check'), check.id, '--replay', rpath],
                           stdout=subprocess.PIPE, stderr=subprocess.PIPE, cwd=VERIF)
        if p.returncode != 1:
            say('fresh-process replay of %s did not reproduce (exit %d):\n%s' % (rpath, p.returncode, p.stdout.decode()[-2000:]))
            nondet = True
            continue
        f = match_finding(findings, check.id, v['clause'], vmin['desc'])
        if f:
            known_hits.append((f, vmin, len(groups[key]), rpath))
        else:
            new_violations.append((key, rpath, vmin, len(groups[key])))

    wall = time.time() - t_start
    if os.environ.get('VERIF_DIGEST'):
        # one line that must not depend on worker count, scheduling or PYTHONHASHSEED
        print('RUN-DIGEST %s' % digest([outcome_digest(results[i]) for i in order]))
    # -------- evidence
    total_runs = agg.runs + agg.ref_runs
    ev = {
        'property_id': check.id, 'tier': tier, 'seed': seed, 'level': check.level,
        'coverage': {
            'evaluations': total_runs,
            'distinct_nontrivial': len(sigset),
            'rule': check.rule,
            'samples': samples,
            'cases': len(order), 'cases_planned': n, 'truncated_by_time_cap': truncated,
            'simulated_runs': agg.runs, 'reference_runs': agg.ref_runs,
            'simulated_steps': agg.steps,
            'runs_per_hour': int(total_runs / wall * 3600) if wall > 0 else 0,
            'steps_per_hour': int(agg.steps / wall * 3600) if wall > 0 else 0,
            'simulated_time': ('the programs set no timer and read no deadline; the only clock readings are the C library\'s own (temporary-file names): '
                               '%d readings of the simulated clock (1 ms of simulated time each), %d bytes from the simulated getrandom; '
                               'coverage is counted in simulated steps (decided system calls / storage operations)' % (agg.clock_reads, agg.random_bytes))
                              if 'E1' in getattr(check, 'engine', '') else 'not applicable: library code behind the FileAccess seam reads no clock; coverage is counted in storage operations',
            'distinct_event_logs': len(hashset),
            'faults_configured_delivered': {k: {'configured': v[0], 'delivered': v[1]} for k, v in sorted(agg.faults.items())},
            'probes': dict(sorted(agg.probes.items())),
            'skipped': dict(sorted(agg.skipped.items())),
            'determinism_gate': {'cases_rerun': det_checked, 'mismatches': det_mismatch},
            'real_components': check.real_components,
            'stubbed_components': check.stubbed_components + (['clock_gettime/gettimeofday/time and getrandom: answered by the simulated kernel (vDSO hidden from the program)'] if 'E1' in getattr(check, 'engine', '') else []),
            'workers': nworkers,
            'exhaustive': False,
            'known_findings_matched': [{'what': f.get('what'), 'count': c} for f, _, c, _ in known_hits],
            'violation_groups': [{'clause': k[0], 'key': str(k[1]), 'count': c, 'replay': rp} for k, rp, _, c in new_violations],
        },
        'assumptions': check.assumptions,
        'wall_s': round(wall, 2),
        'violations': len(new_violations),
    }
    os.makedirs(os.path.join(OUTDIR, 'evidence'), exist_ok=True)
    with open(os.path.join(OUTDIR, 'evidence', check.id + '.json'), 'w') as f:
        json.dump(ev, f, indent=1, sort_keys=True)
        f.write('\n')

    print('%s %s: %d cases, %d simulated runs (+%d reference), %d steps, %d distinct non-trivial, %.1fs'
          % (check.id, tier, len(order), agg.runs, agg.ref_runs, agg.steps, len(sigset), wall))
    fk = ', '.join('%s %d/%d' % (k, v[1], v[0]) for k, v in sorted(agg.faults.items()))
    print('faults delivered/configured: ' + (fk or 'none'))
    if agg.probes:
        print('probes: ' + ', '.join('%s=%d' % kv for kv in sorted(agg.probes.items())))
    if agg.skipped:
        print('skipped: ' + ', '.join('%s=%d' % kv for kv in sorted(agg.skipped.items())))
    for f, vmin, c, rpath in known_hits:
        print('KNOWN-FINDING: property=%s %s (%d cases; e.g. %s)' % (check.id, f.get('what'), c, vmin['explain']))
    if det_mismatch and not new_violations:
        print('HARNESS NONDETERMINISM: %d of %d re-run cases differed; no verdict' % (det_mismatch, det_checked))
        return 2
    if det_mismatch:
        print('note: %d of %d re-run cases differed between two executions of the same plan; since gated, replayed violations '
              'were found as well, the program under test is the likely source' % (det_mismatch, det_checked))
    if nondet and not new_violations:
        print('HARNESS NONDETERMINISM: a candidate violation did not reproduce; no verdict')
        return 2
    for key, v, c in unprocessed:
        print('further violation group (not gated/minimised, budget of %d groups used): clause=%s cases=%d: %s'
              % (check.max_groups, key[0], c, v['explain']))
    if unprocessed and not new_violations and not known_hits:
        print('HARNESS: violation groups remain but none was processed; no verdict')
        return 2
    if new_violations:
        for key, rpath, vmin, c in new_violations:
            print('violation clause=%s cases=%d: %s' % (key[0], c, vmin['explain']))
            print('VIOLATION property=%s replay=%s' % (check.id, rpath))
        return 1
    return 0


class CheckBase:
    """Defaults for a check module's CHECK object."""
    id = 'C00'
    level = 'exploration'
    engine = 'E1'
    builds = ['rel']
    rule = ''
    assumptions = []
    real_components = []
    stubbed_components = []
    max_groups = 6
    max_shrink_runs = 300

    def budget(self, tier):
        return 100

    def time_cap(self, tier):
        return 900 if tier == 'quick' else 7200

    def det_sample(self, tier, ncases):
        return min(ncases, max(8, ncases // 25))

    def group_key(self, v):
        d = v.get('desc') or {}
        return tuple(sorted((k, str(d[k])) for k in d))

    def shrink(self, case, clause):
        return iter(())


def debug_case(check_mod, tier, seed, index):
    mod = importlib.import_module(check_mod)
    check = mod.CHECK
    paths = builds.ensure(check.builds)
    base = os.path.join(SHM, 'vdbug-%010d/w%010d' % (os.getpid(), os.getpid()))
    ctx = Ctx(check, tier, paths, base)
    orig = ctx.sk.run

    def logged(*a, **kw):
        kw['want_log'] = True
        r = orig(*a, **kw)
        print('--- run argv=%s faults=%s -> %s fired=%s' % (a[2], kw.get('faults'), r.exit_class(), r['fired']))
        print(r.get('log', ''))
        print('stderr:', r.get('stderr', b'')[:400])
        return r
    ctx.sk.run = logged
    try:
        case = check.gen_case(Rng.derive(seed, check.id, tier, index), tier, index)
        print('case:', json.dumps(brief(case), indent=1)[:3000])
        out = check.run_case(case, ctx)
        od = out.to_dict()
        for v in od['violations']:
            print('VIOLATION', v['clause'], v['explain'], v['desc'])
        print({k: od[k] for k in ('runs', 'ref_runs', 'steps', 'faults', 'probes', 'skipped')})
    finally:
        ctx.close()
        shutil.rmtree(os.path.dirname(base), ignore_errors=True)
    return 0


def main(argv):
    import argparse
    ap = argparse.ArgumentParser()
    ap.add_argument('prop')
    ap.add_argument('--tier', default=os.environ.get('VERIF_TIER', 'quick'))
    ap.add_argument('--replay')
    ap.add_argument('--max-cases', type=int)
    ap.add_argument('--workers', type=int)
    ap.add_argument('--time-cap', type=float)
    ap.add_argument('--case', type=int, help='run one generated case in-process and print what happened')
    a = ap.parse_args(argv)
    seed = int(os.environ.get('VERIF_SEED', '1'))
    mod = 'checks.' + a.prop.lower()
    sys.path.insert(0, VERIF)
    if a.case is not None:
        return debug_case(mod, a.tier, seed, a.case)
    rc = run_check(mod, a.tier, seed, replay=a.replay, max_cases=a.max_cases, workers=a.workers, time_cap=a.time_cap)
    sys.stdout.flush()
    return rc
