"""Building flux images (HFE v1/v3, HxC MFM) from rendered surfaces, with
per-track layout parameters, v3 opcodes and damage applied to the cells."""

from .prng import Rng
from .models import flux

# ---------------------------------------------------------------- damage on cells


def apply_damage(cells, regions, ops):
    """ops: list of dicts in the track's own coordinates:
       {'k':'flip','region':name,'rec':r|None,'off':n}           one cell flipped
       {'k':'burst','region','rec','off','len','seed'}           cells replaced by noise
       {'k':'slip','region','rec','off','ins':0|1}               one cell deleted / inserted
       {'k':'drop','region','rec','off','len','v':0|1}           run forced to 0 / 1
       {'k':'trunc','region','rec','off'}                        track ends here
    'off' is taken modulo the region length.  Returns new cell list."""
    out = list(cells)
    # apply from the end of the track backwards so that slips do not shift earlier positions
    resolved = []
    for op in ops:
        reg = [r for r in regions if r[0] == op['region'] and (op.get('rec') is None or r[1] == op.get('rec'))]
        if not reg:
            continue
        name, rec, a, b = reg[op.get('nth', 0) % len(reg)]
        if b <= a:
            continue
        pos = a + op['off'] % (b - a)
        resolved.append((pos, op, b))
    resolved.sort(key=lambda t: -t[0])
    for pos, op, end in resolved:
        k = op['k']
        if pos >= len(out):
            continue      # a truncation at the same position already removed this cell
        if k == 'flip':
            out[pos] ^= 1
        elif k == 'burst':
            r = Rng(op.get('seed', 1))
            n = op['len']
            for i in range(pos, min(len(out), pos + n)):
                out[i] = r.below(2)
            # make sure something changed at the ends so the burst really has that extent
        elif k == 'slip':
            if op.get('ins'):
                out.insert(pos, op.get('v', 0))
            else:
                del out[pos]
        elif k == 'drop':
            for i in range(pos, min(len(out), pos + op['len'])):
                out[i] = op.get('v', 0)
        elif k == 'trunc':
            del out[pos:]
    return out


# ---------------------------------------------------------------- HFE v3 streams

def v3_stream(enc, cells, rng, density, kinds):
    """File byte stream (values as stored in the file) for one side of one track with
    HFEv3 opcodes inserted between cells.  density: expected opcodes per 1000 data bytes."""
    raw = flux.fm_cells_to_raw(cells) if enc == 'fm' else list(cells)
    out = bytearray()
    i = 0
    n = len(raw)
    REV = flux.REV
    count = {'nop': 0, 'setindex': 0, 'setbitrate': 0, 'skipbits': 0}
    while i < n:
        if kinds and rng.below(1000) < density:
            k = rng.choice(kinds)
            count[k] += 1
            if k == 'nop':
                out.append(REV[0xF0])
            elif k == 'setindex':
                out.append(REV[0xF1])
            elif k == 'setbitrate':
                out.append(REV[0xF2])
                out.append(REV[rng.choice([72, 250, 0xF3 & 0xEF, rng.below(256)]) & 0xFF])
            else:
                skip = rng.randint(1, 7)
                out.append(REV[0xF3])
                out.append(REV[skip])
                if len(kinds) > 1 and rng.chance(0.25):
                    # another opcode between SKIPBITS and the byte it applies to: the skip stays pending
                    k2 = rng.choice([x for x in kinds if x != 'skipbits'])
                    count[k2] += 1
                    out.append(REV[{'nop': 0xF0, 'setindex': 0xF1, 'setbitrate': 0xF2}[k2]])
                    if k2 == 'setbitrate':
                        out.append(REV[rng.choice([72, 250, rng.below(240)]) & 0xFF])
                # a byte whose first `skip` bit slots are to be ignored, the rest are the next cells
                b = 0
                take = 8 - skip
                for j in range(take):
                    if i + j < n and raw[i + j]:
                        b |= 1 << (skip + j)
                i += take
                # junk in the skipped slots, but never an opcode look-alike
                junk = rng.below(1 << skip)
                if ((b | junk) & 0x0F) == 0x0F:
                    junk = 0
                out.append(b | junk)
                continue
        b = 0
        for j in range(8):
            if i + j < n and raw[i + j]:
                b |= 1 << j
        i += 8
        out.append(b)
    return bytes(out), count


# ---------------------------------------------------------------- whole images

def build(fluxcase, rendered, damage=None):
    """fluxcase: {'container': 'hfe1'|'hfe3'|'mfm', 'enc': 'fm'|'mfm', 'tracks', 'spt', 'sides', 'seed',
                  'params': 'same'|'per-track', 'order': style|None, 'pad': bool, 'exact_len': bool,
                  'v3': {'density': n, 'kinds': [...]}}
       rendered: list of surface byte strings (one per side)
       damage: dict (side, track) -> list of damage ops
       Returns (file bytes, info) where info['regions'][(side, track)] is the region map and
       info['order'][(side, track)] the physical sector order."""
    rng = Rng.derive(fluxcase['seed'], 'flux')
    enc = fluxcase['enc']
    tracks, spt, sides = fluxcase['tracks'], fluxcase['spt'], fluxcase['sides']
    base_params = flux.gen_params(rng, enc, spt)
    info = {'regions': {}, 'order': {}, 'opcodes': {'nop': 0, 'setindex': 0, 'setbitrate': 0, 'skipbits': 0}, 'params': base_params}
    per = []
    for t in range(tracks):
        row = []
        for s in range(sides):
            p = base_params if fluxcase.get('params', 'same') == 'same' else flux.gen_params(rng, enc, spt)
            order = flux.sector_order(rng, spt, fluxcase.get('order'))
            surf = rendered[s]
            marks = fluxcase.get('marks') or {}
            reid = fluxcase.get('reid') or {}
            secs = [(r, surf[(t * spt + r) * 256:(t * spt + r + 1) * 256], marks.get('%d:%d:%d' % (s, t, r), 0xFB), reid.get('%d:%d:%d' % (s, t, r))) for r in order]
            big = fluxcase.get('bigsec') or {}
            if big:
                # a sector recorded with another size code (128 << n bytes of data, ID and CRCs consistent with it)
                secs = [(r, (pl + bytes([0xB5]) * 1024)[:128 << big['%d:%d:%d' % (s, t, r)]], mk, [t, s, r, big['%d:%d:%d' % (s, t, r)]])
                        if '%d:%d:%d' % (s, t, r) in big else (r, pl, mk, ov) for r, pl, mk, ov in secs]
            if s in (fluxcase.get('blank_sides') or ()):
                # an unformatted side: a track of gap bytes, no address marks at all
                secs = []
                p = dict(p, gap4=rng.choice([3000, 6000]) if enc == 'mfm' else rng.choice([1500, 3000]), index_mark=False)
            cells, regions = flux.encode_track(enc, t, s, secs, p)
            info['regions'][(s, t)] = regions
            info['order'][(s, t)] = order
            if damage and (s, t) in damage:
                cells = apply_damage(cells, regions, damage[(s, t)])
            row.append(cells)
        per.append(row)
    cont = fluxcase['container']
    if cont == 'mfm':
        return flux.hxcmfm_file(per, sides), info
    version = 1 if cont == 'hfe1' else 3
    trk = []
    v3 = fluxcase.get('v3') or {}
    for t in range(tracks):
        row = []
        for s in range(sides):
            if version == 3 and v3.get('kinds'):
                st, cnt = v3_stream(enc, per[t][s], rng, v3.get('density', 5), v3['kinds'])
                for k in cnt:
                    info['opcodes'][k] += cnt[k]
            else:
                st = flux.hfe_side_stream(enc, per[t][s])
            row.append(st)
        trk.append(row)
    pad = [rng.below(3) for _ in range(tracks)] if fluxcase.get('pad') else None
    exact = [rng.chance(0.5) for _ in range(tracks)] if fluxcase.get('exact_len') else None
    # header bytes 0x16..0x19: a side may declare the encoding of its track 0 explicitly (alt-encoding flag 0x00 +
    # encoding byte) instead of inheriting the global one; the unused encoding byte of the other side is 0xFF
    code = 2 if enc == 'fm' else 0
    ho = {}
    alt0 = fluxcase.get('alt0') or []
    for s_ in (0, 1):
        if s_ in alt0:
            ho[str(0x16 + 2 * s_)] = 0x00
            ho[str(0x17 + 2 * s_)] = code
    ho.update(fluxcase.get('hdr') or {})     # any other header byte, by offset
    return flux.hfe_file(version, enc, trk, sides, pad_tracks=pad, exact_len=exact, header_overrides=ho or None), info


def gen_fluxcase(rng, enc=None, container=None, sides=None, small=False):
    container = container or rng.weighted([(3, 'hfe1'), (3, 'hfe3'), (2, 'mfm')])
    if container == 'mfm':
        enc = 'mfm'
    enc = enc or rng.choice(['fm', 'mfm'])
    spt = 10 if enc == 'fm' else rng.choice([16, 18, 18])
    tracks = rng.choice([35, 40, 80]) if not small else rng.choice([35, 40])
    fc = {'container': container, 'enc': enc, 'tracks': tracks, 'spt': spt, 'sides': sides or rng.weighted([(3, 1), (1, 2)]),
          'seed': rng.next64() & 0xFFFFFFFF, 'params': rng.choice(['same', 'same', 'per-track']),
          'order': rng.choice([None, 'seq', 'interleave2', 'skew', 'random']), 'pad': rng.chance(0.3), 'exact_len': rng.chance(0.5)}
    if container != 'mfm':
        fc['alt0'] = rng.weighted([(5, []), (2, [0]), (2, [1]), (2, [0, 1])])
    if container == 'hfe3':
        kinds = rng.choice([['nop'], ['setindex'], ['setbitrate'], ['nop', 'setindex', 'setbitrate'], ['skipbits'],
                            ['nop', 'setindex', 'setbitrate', 'skipbits'], []])
        fc['v3'] = {'density': rng.choice([1, 3, 10, 40]), 'kinds': kinds}
    return fc


def gen_hostile_flux(rng, sides=1, none_weight=1, container=None):
    """A small flux image description with legal-but-unusual recordings (deleted-data and other data marks)
    and/or cell damage, for the fail-cleanly and option-independence checks.
    Returns (fluxcase, damage dict with 'side:track' keys)."""
    fc = gen_fluxcase(rng, small=True, sides=sides, container=container)
    marks = {}
    damage = {}
    what = rng.weighted([(3, 'marks'), (3, 'damage'), (2, 'both'), (none_weight, 'none')])
    if what in ('marks', 'both'):
        for _ in range(rng.weighted([(4, 1), (2, 2), (1, rng.randint(3, 12))])):
            side = rng.below(fc['sides'])
            t = rng.below(fc['tracks'])
            r = rng.weighted([(2, 0), (2, fc['spt'] - 1), (3, rng.below(fc['spt']))])
            marks['%d:%d:%d' % (side, t, r)] = rng.choice([0xF8, 0xF8, 0xF9, 0xFA, 0xFC, 0xFD])
        if rng.chance(0.3):
            # radial: the same sector of every track
            r = rng.choice([0, fc['spt'] - 1])
            mk = rng.choice([0xF8, 0xF9, 0xFA])
            for t in range(fc['tracks']):
                marks['0:%d:%d' % (t, r)] = mk
    if what in ('damage', 'both'):
        from .models import flux as _f
        for _ in range(rng.randint(1, 3)):
            side = rng.below(fc['sides'])
            t = rng.below(fc['tracks'])
            k = rng.weighted([(3, 'flip'), (3, 'drop'), (2, 'slip'), (1, 'trunc')])
            op = {'k': k, 'region': rng.choice(['sync', 'idmark', 'id', 'idcrc', 'gap2', 'datamark', 'data', 'datacrc', 'gap3']),
                  'rec': rng.below(fc['spt']), 'off': rng.below(100000)}
            if k == 'drop':
                op['len'] = rng.choice([16, 100, 1000])
                op['v'] = 0
            elif k == 'slip':
                op['ins'] = rng.below(2)
            damage['%d:%d' % (side, t)] = damage.get('%d:%d' % (side, t), []) + [op]
    fc['marks'] = marks
    return fc, damage


def build_from_json(fluxcase, surfaces_json, damage_json):
    from .models import dfsdisc as dd
    rendered = [dd.Surface.from_json(s).render() for s in surfaces_json]
    dmg = {}
    for k, ops in (damage_json or {}).items():
        s, t = k.split(':')
        dmg[(int(s), int(t))] = ops
    return build(fluxcase, rendered, dmg)
