"""Builds of /repo's *current working tree* under /verif/.build/<config>.

Every check calls ensure(config...) first; the build is an incremental
cmake/ninja run (a no-op when nothing changed) serialised with flock so that
checks may run in parallel.  Guard define for hooks: BEEBTOOLS_VERIF (no hooks
are currently needed, see DESIGN.md 2.6)."""

import fcntl
import os
import shutil
import subprocess
import sys

VERIF = os.path.dirname(os.path.dirname(os.path.abspath(__file__)))
REPO = os.environ.get('VERIF_REPO', '/repo')
BUILD = os.environ.get('VERIF_BUILD', os.path.join(VERIF, '.build'))

SAN = ('-fsanitize=address,undefined -fno-sanitize-recover=undefined '
       '-fno-omit-frame-pointer -D_GLIBCXX_SANITIZE_VECTOR')

CONFIGS = {
    # the pinned configuration
    'rel': dict(build_type='RelWithDebInfo', flags=''),
    # what BUILD.md documents: no build type => assertions on
    'dbg': dict(build_type='', flags=''),
    # the pinned optimisation flags with assertions left on: differs from 'rel' in NDEBUG only
    'rel-assert': dict(build_type='RelWithDebInfo', flags='', extra=['-DCMAKE_C_FLAGS_RELWITHDEBINFO=-O2 -g', '-DCMAKE_CXX_FLAGS_RELWITHDEBINFO=-O2 -g']),
    'asan': dict(build_type='RelWithDebInfo', flags=SAN),
    'asan-dbg': dict(build_type='', flags=SAN),
}

SAN_ENV = {
    # symbolize=0: the external symbolizer would fork, which the simulated kernel does not allow
    'ASAN_OPTIONS': 'suppressions=' + os.path.join(VERIF, 'sim', 'asan.supp') + ':exitcode=77:detect_leaks=0:abort_on_error=0:allocator_may_return_null=0:max_allocation_size_mb=256:symbolize=0:detect_stack_use_after_return=0',
    'UBSAN_OPTIONS': 'halt_on_error=1:exitcode=77:print_stacktrace=0:symbolize=0',
    'MSAN_OPTIONS': 'exitcode=77:symbolize=0',
}


def log(msg):
    sys.stderr.write('[build] %s\n' % msg)
    sys.stderr.flush()


class Lock:
    def __init__(self, name):
        os.makedirs(BUILD, exist_ok=True)
        self.path = os.path.join(BUILD, name + '.lock')

    def __enter__(self):
        self.f = open(self.path, 'w')
        fcntl.flock(self.f, fcntl.LOCK_EX)
        return self

    def __exit__(self, *a):
        fcntl.flock(self.f, fcntl.LOCK_UN)
        self.f.close()


def _run(cmd, cwd=None, env=None):
    p = subprocess.run(cmd, cwd=cwd, env=env, stdout=subprocess.PIPE, stderr=subprocess.STDOUT)
    if p.returncode != 0:
        sys.stderr.write(p.stdout.decode('utf-8', 'replace')[-8000:])
        raise SystemExit('build command failed: %s' % ' '.join(cmd))
    return p.stdout


def ensure_config(cfg):
    """cmake+ninja build of dfs and bbcbasic_to_text; returns dict of paths."""
    c = CONFIGS[cfg]
    d = os.path.join(BUILD, cfg)
    with Lock(cfg):
        if not os.path.exists(os.path.join(d, 'build.ninja')):
            os.makedirs(d, exist_ok=True)
            cmd = ['cmake', '-G', 'Ninja', '-S', REPO, '-B', d,
                   '-DCMAKE_BUILD_TYPE=' + c['build_type']]
            if c['flags']:
                cmd += ['-DCMAKE_C_FLAGS=' + c['flags'], '-DCMAKE_CXX_FLAGS=' + c['flags'],
                        '-DCMAKE_EXE_LINKER_FLAGS=-fsanitize=address,undefined']
            cmd += c.get('extra', [])
            _run(cmd)
        _run(['ninja', '-C', d, 'dfs', 'bbcbasic_to_text'])
    return {'dfs': os.path.join(d, 'dfs', 'dfs'),
            'bbcbasic_to_text': os.path.join(d, 'basic', 'bbcbasic_to_text')}


def ensure_msan_basic():
    """bbcbasic_to_text with clang MemorySanitizer (pure C, so usable)."""
    d = os.path.join(BUILD, 'msan-basic')
    out = os.path.join(d, 'bbcbasic_to_text')
    srcs = [os.path.join(REPO, 'basic', f) for f in ('bbcbasic_to_text.c', 'tokens.c', 'lines.c', 'decoder.c')]
    with Lock('msan-basic'):
        os.makedirs(d, exist_ok=True)
        newest = max(os.path.getmtime(s) for s in srcs + [os.path.join(REPO, 'basic', 'decoder.h'), os.path.join(REPO, 'basic', 'tokens.h')])
        for nd, flags in ((out, ['-DNDEBUG', '-O1']), (out + '-dbg', ['-O1'])):
            if not os.path.exists(nd) or os.path.getmtime(nd) < newest:
                _run(['clang', '-fsanitize=memory', '-fno-omit-frame-pointer', '-g'] + flags + ['-o', nd] + srcs)
    return {'bbcbasic_to_text': out, 'bbcbasic_to_text-dbg': out + '-dbg'}


def ensure_engines():
    eng = os.path.join(BUILD, 'engines')
    with Lock('engines'):
        _run(['make', '-s', '-C', os.path.join(VERIF, 'engines', 'simkernel'), 'OUT=' + eng])
    return {'simkernel': os.path.join(eng, 'simkernel')}


def ensure_simdisk():
    eng = os.path.join(BUILD, 'engines')
    with Lock('simdisk'):
        _run(['make', '-s', '-j16', '-C', os.path.join(VERIF, 'engines', 'simdisk'),
              'OUT=' + os.path.join(BUILD, 'simdisk'), 'REPO=' + REPO])
    return {'simdisk': os.path.join(BUILD, 'simdisk', 'simdisk')}


def ensure(configs):
    res = {'engines': ensure_engines()}
    for c in configs:
        if c == 'msan-basic':
            res[c] = ensure_msan_basic()
        elif c == 'simdisk':
            res[c] = ensure_simdisk()
        else:
            res[c] = ensure_config(c)
    return res


if __name__ == '__main__':
    cfgs = sys.argv[1:] or ['rel', 'rel-assert', 'dbg', 'asan', 'asan-dbg', 'msan-basic']
    r = ensure(cfgs)
    for k in r:
        print(k, r[k])
