"""Client for engine E2 (simdisk): in-process simulated disc behind DFS::FileAccess."""

import json
import os
import select
import struct
import subprocess

from . import builds


class WorkerDied(Exception):
    def __init__(self, code, stderr):
        Exception.__init__(self, 'simdisk worker died: %r' % (code,))
        self.code = code
        self.stderr = stderr


class SimDisk:
    def __init__(self, exe=None):
        self.exe = exe or os.path.join(builds.BUILD, 'simdisk', 'simdisk')
        self.p = None
        self.ops = 0
        self.deaths = 0
        self.timeout = 30
        self.spurious_timeouts = 0

    def start(self):
        self.errf = open(os.devnull, 'wb')
        self.p = subprocess.Popen([self.exe], stdin=subprocess.PIPE, stdout=subprocess.PIPE, stderr=subprocess.PIPE, bufsize=0)

    def stop(self):
        if self.p:
            try:
                self.p.stdin.close()
                self.p.wait(timeout=5)
            except Exception:
                self.p.kill()
            self.p = None

    def _read_exact(self, n, timeout):
        """Read exactly n bytes from the worker's (unbuffered) stdout, or None on EOF; raises TimeoutError."""
        fd = self.p.stdout.fileno()
        chunks = []
        got = 0
        while got < n:
            ready, _, _ = select.select([fd], [], [], timeout)
            if not ready:
                raise TimeoutError()
            b = os.read(fd, min(n - got, 1 << 20))
            if not b:
                return None
            chunks.append(b)
            got += len(b)
        return b''.join(chunks)

    def _kill(self):
        try:
            self.p.kill()
            self.p.wait()
        except Exception:
            pass
        self.p = None

    def call(self, line, payload=b'', _retry=True):
        if self.p is None or self.p.poll() is not None:
            self.start()
        msg = line.encode('ascii') + b'\n' + payload
        timeout = self.timeout if _retry else self.timeout * 4
        try:
            self.p.stdin.write(struct.pack('<I', len(msg)) + msg)
            self.p.stdin.flush()
            hdr = self._read_exact(4, timeout)
            body = None
            if hdr is not None:
                n = struct.unpack('<I', hdr)[0]
                body = self._read_exact(n, timeout)
        except BrokenPipeError:
            hdr = body = None
        except TimeoutError:
            # the library code may loop for ever on hostile input: every operation is bounded.  A time-out is
            # believed only if it happens again in a fresh worker with four times the limit.
            self._kill()
            if _retry:
                self.spurious_timeouts += 1
                return self.call(line, payload, _retry=False)
            self.deaths += 1
            raise WorkerDied('timeout', b'no answer within %d s, twice: unbounded loop' % (self.timeout * 4))
        if hdr is None or body is None:
            # the worker crashed (sanitizer report, abort, ...): collect what it said, restart lazily
            try:
                self.p.stdin.close()
            except Exception:
                pass
            err = self.p.stderr.read()
            code = self.p.wait()
            self.p = None
            self.deaths += 1
            raise WorkerDied(code, err)
        nl = body.index(b'\n')
        self.ops += 1
        return json.loads(body[:nl].decode('utf-8')), body[nl + 1:]

    # ------------------------------------------------------------- operations
    def decode(self, enc, data, first, stride):
        j, blob = self.call('DECODE %s %d %d' % (enc, first, stride), data)
        for s in j['sectors']:
            s['data'] = blob[s['off']:s['off'] + s['size']]
        return j

    def open(self, kind, data, name=None, eof_at=-1, ioerror_nth=-1, ioerror_touch=-1, policy='physical'):
        j, _ = self.call('OPEN %s %s %d %d %d %s' % (kind, name or ('img.' + kind), eof_at, ioerror_nth, ioerror_touch, policy), data)
        return j

    def readall(self, drive, limit=-1):
        j, blob = self.call('READALL %d %d' % (drive, limit))
        secs = []
        o = 0
        for ch in j.get('present', ''):
            if ch == '1':
                secs.append(blob[o:o + 256])
                o += 256
            elif ch == 'E':
                secs.append('E')
            else:
                secs.append(None)
        j['sectors'] = secs
        return j

    def mount(self, drive, vol=None):
        j, _ = self.call('MOUNT %d %s' % (drive, vol or '-'))
        return j

    def body(self, drive, vol, idx):
        j, blob = self.call('BODY %d %s %d' % (drive, vol or '-', idx))
        j['data'] = blob
        return j
