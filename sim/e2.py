"""Client for engine E2 (simdisk): in-process simulated disc behind DFS::FileAccess."""

import json
import os
import select
import struct
import subprocess

from . import builds


class WorkerDied(Exception):
    def __init__(self, code, stderr):
        Exception.__init__(self, 'simdisk worker died: %r' % (code,))
        self.code = code
        self.stderr = stderr


class SimDisk:
    def __init__(self, exe=None):
        self.exe = exe or os.path.join(builds.BUILD, 'simdisk', 'simdisk')
        self.p = None
        self.ops = 0
        self.deaths = 0
        self.timeout = 30

    def start(self):
        self.errf = open(os.devnull, 'wb')
        self.p = subprocess.Popen([self.exe], stdin=subprocess.PIPE, stdout=subprocess.PIPE, stderr=subprocess.PIPE)

    def stop(self):
        if self.p:
            try:
                self.p.stdin.close()
                self.p.wait(timeout=5)
            except Exception:
                self.p.kill()
            self.p = None

    def call(self, line, payload=b''):
        if self.p is None or self.p.poll() is not None:
            self.start()
        msg = line.encode('ascii') + b'\n' + payload
        try:
            self.p.stdin.write(struct.pack('<I', len(msg)) + msg)
            self.p.stdin.flush()
            # the library code may loop for ever on hostile input: bound every operation
            ready, _, _ = select.select([self.p.stdout], [], [], self.timeout)
            if not ready:
                self.p.kill()
                self.p.wait()
                self.p = None
                self.deaths += 1
                raise WorkerDied('timeout', b'no answer within %d s: unbounded loop' % self.timeout)
            hdr = self.p.stdout.read(4)
        except BrokenPipeError:
            hdr = b''
        if len(hdr) < 4:
            # the worker crashed (sanitizer report, abort, ...): collect what it said, restart lazily
            try:
                self.p.stdin.close()
            except Exception:
                pass
            err = self.p.stderr.read()
            code = self.p.wait()
            self.p = None
            self.deaths += 1
            raise WorkerDied(code, err)
        n = struct.unpack('<I', hdr)[0]
        body = self.p.stdout.read(n)
        nl = body.index(b'\n')
        self.ops += 1
        return json.loads(body[:nl].decode('utf-8')), body[nl + 1:]

    # ------------------------------------------------------------- operations
    def decode(self, enc, data, first, stride):
        j, blob = self.call('DECODE %s %d %d' % (enc, first, stride), data)
        for s in j['sectors']:
            s['data'] = blob[s['off']:s['off'] + s['size']]
        return j

    def open(self, kind, data, name=None, eof_at=-1, ioerror_nth=-1, ioerror_touch=-1, policy='physical'):
        j, _ = self.call('OPEN %s %s %d %d %d %s' % (kind, name or ('img.' + kind), eof_at, ioerror_nth, ioerror_touch, policy), data)
        return j

    def readall(self, drive, limit=-1):
        j, blob = self.call('READALL %d %d' % (drive, limit))
        secs = []
        o = 0
        for ch in j.get('present', ''):
            if ch == '1':
                secs.append(blob[o:o + 256])
                o += 256
            elif ch == 'E':
                secs.append('E')
            else:
                secs.append(None)
        j['sectors'] = secs
        return j

    def mount(self, drive, vol=None):
        j, _ = self.call('MOUNT %d %s' % (drive, vol or '-'))
        return j

    def body(self, drive, vol, idx):
        j, blob = self.call('BODY %d %s %d' % (drive, vol or '-', idx))
        j['data'] = blob
        return j
