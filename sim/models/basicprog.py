"""Model of tokenised BBC BASIC program files: generator, encoder and the
framing validator used by C09 (line structure from doc/bbcbasic.5; token validity
from basic/testdata/golden-token-map.txt, which the repo's own
basic_invariant_token_map test pins to the binary)."""

import os

REPO = os.environ.get('VERIF_REPO', '/repo')

DIALECT_NAMES = ['6502', 'PDP11', '32000', 'Z80', '8086', 'ARM', 'Windows', 'SDL', 'MacOSX', 'Mac']
SYNONYM = {'32000': '6502', '8086': 'Z80', 'SDL': 'Windows', 'MacOSX': 'Windows'}
BIG_ENDIAN = {'6502', 'PDP11', 'ARM', 'Mac'}

_maps = None


def canonical(d):
    return SYNONYM.get(d, d)


def is_big_endian(d):
    return canonical(d) in BIG_ENDIAN


def token_maps():
    """dict dialect -> {'base': [256], 'c6': [256]|None, 'c7':..., 'c8':...}; entries are
    strings; '__invalid__' etc. kept verbatim; '(maps to itself)' replaced by None->chr."""
    global _maps
    if _maps is not None:
        return _maps
    maps = {}
    path = os.path.join(REPO, 'basic', 'testdata', 'golden-token-map.txt')
    with open(path, 'rb') as f:
        for raw in f.read().split(b'\n'):
            line = raw.decode('latin-1')
            if not line or line.startswith('dialect '):
                continue
            # "<name> (<map> map): 0xNN->TEXT"  or "... dialect has no valid tokens ..."
            name, rest = line.split(' (', 1)
            mapname, rest = rest.split(' map): ', 1)
            d = maps.setdefault(name, {'base': [None] * 256, 'c6': None, 'c7': None, 'c8': None})
            if rest.startswith('dialect has no valid tokens'):
                d[mapname] = ['__invalid__'] * 256
                continue
            code, text = rest.split('->', 1)
            i = int(code, 16)
            if d[mapname] is None:
                d[mapname] = [None] * 256
            d[mapname][i] = chr(i) if text == '(maps to itself)' else text
    _maps = maps
    return maps


def base_kind(dialect, b):
    """Classify byte b outside a string: 'plain', 'invalid', 'linenum', 'fastvar', 'c6','c7','c8','pdp'."""
    m = token_maps()[canonical(dialect)]
    t = m['base'][b]
    if t is None or t == '__invalid__':
        return 'invalid'
    if b == 0x5F:
        return 'plain'
    if t == '__line_num__':
        return 'linenum'
    if t == '__fastvar__':
        return 'fastvar'
    if t == '__pdp__':
        return 'pdp'
    if t in ('__c6__', '__c7__', '__c8__'):
        return t.strip('_')
    if t.startswith('_') and len(t) > 1:
        return 'invalid'
    return 'plain'


def ext_valid(dialect, which, b):
    m = token_maps()[canonical(dialect)]
    t = m[which][b]
    return not (t is None or (t.startswith('_') and len(t) > 1))


def payload_reason(dialect, payload):
    """None if the payload is token-valid, else the reason it is not:
    'nul', 'invalid_token', 'fastvar', 'ref_cut', 'ext_cut', 'invalid_ext'."""
    i = 0
    n = len(payload)
    in_string = False
    while i < n:
        b = payload[i]
        i += 1
        if b == 0:
            return 'nul'
        if in_string:
            if b == 0x22:
                in_string = False
            continue
        k = base_kind(dialect, b)
        if k == 'invalid':
            return 'invalid_token'
        if k == 'fastvar':
            return 'fastvar'
        if k == 'linenum':
            if n - i < 3:
                return 'ref_cut'
            i += 3
        elif k in ('c6', 'c7', 'c8'):
            if i >= n:
                return 'ext_cut'
            if not ext_valid(dialect, k, payload[i]):
                return 'invalid_ext'
            i += 1
        elif k == 'pdp':
            if i >= n:
                return 'ext_cut'
            if payload[i] == 0x98:
                i += 1
        if b == 0x22:
            in_string = True
    return None


def payload_wellformed(dialect, payload):
    return payload_reason(dialect, payload) is None


def parse3(dialect, data):
    """Framing validator.  Returns (ok, lines, reason): ok only for a complete,
    well-framed, token-valid program; reason names the first defect met:
    'bad_start', 'short_len', 'truncated', 'missing_terminator', 'bad_eof_marker',
    'trailing_after_eof', or a payload reason."""
    lines = []
    i = 0
    n = len(data)
    if n == 0:
        return True, lines, None      # an empty file is an empty program for this tool
    if is_big_endian(dialect):
        while True:
            if i >= n:
                return False, lines, 'truncated'
            if data[i] != 0x0D:
                return False, lines, 'bad_start'
            if i + 1 >= n:
                return False, lines, 'truncated'
            hi = data[i + 1]
            if hi == 0xFF:
                if i + 2 == n:
                    return True, lines, None
                return False, lines, 'trailing_after_eof'
            if i + 3 >= n:
                return False, lines, 'truncated'
            lo = data[i + 2]
            ln = data[i + 3]
            if ln < 4:
                return False, lines, 'short_len'
            payload = data[i + 4:i + ln]
            if len(payload) != ln - 4:
                return False, lines, 'truncated'
            r = payload_reason(dialect, payload)
            if r:
                return False, lines, r
            lines.append((hi * 256 + lo, bytes(payload)))
            i += ln
    else:
        while True:
            if i >= n:
                return False, lines, 'truncated'
            ln = data[i]
            if ln == 0:
                if len(data) - i < 3:
                    return False, lines, 'truncated'
                if data[i + 1:i + 3] != b'\xff\xff':
                    return False, lines, 'bad_eof_marker'
                if i + 3 == n:
                    return True, lines, None
                return False, lines, 'trailing_after_eof'
            if ln < 3:
                return False, lines, 'short_len'
            if i + ln > n:
                return False, lines, 'truncated'
            if ln == 3:
                # header only, no tokens and no terminator: the tool (and R.T.Russell's
                # compiler output) treat this as an empty line
                lines.append((data[i + 2] * 256 + data[i + 1], None))
                i += 3
                continue
            lo = data[i + 1]
            hi = data[i + 2]
            payload = data[i + 3:i + ln - 1]
            if data[i + ln - 1] != 0x0D:
                return False, lines, 'missing_terminator'
            r = payload_reason(dialect, payload)
            if r:
                return False, lines, r
            lines.append((hi * 256 + lo, bytes(payload)))
            i += ln


def parse(dialect, data):
    ok, lines, _ = parse3(dialect, data)
    return ok, lines


def encode(dialect, lines):
    out = bytearray()
    if is_big_endian(dialect):
        for no, payload in lines:
            assert len(payload) + 4 <= 255
            out += bytes([0x0D, (no >> 8) & 0xFF, no & 0xFF, len(payload) + 4]) + payload
        out += b'\x0d\xff'
    else:
        for no, payload in lines:
            assert len(payload) + 4 <= 255
            out += bytes([len(payload) + 4, no & 0xFF, (no >> 8) & 0xFF]) + payload + b'\x0d'
        out += b'\x00\xff\xff'
    return bytes(out)


def line_offsets(dialect, lines):
    """Byte offsets of structural positions, for aiming framing corruption.
    Returns list of dicts per line: start, len_pos, payload_start, end (exclusive), term_pos(LE)."""
    out = []
    o = 0
    for no, payload in lines:
        if is_big_endian(dialect):
            out.append({'start': o, 'cr_pos': o, 'hi_pos': o + 1, 'lo_pos': o + 2, 'len_pos': o + 3, 'payload': o + 4, 'end': o + 4 + len(payload)})
            o += 4 + len(payload)
        else:
            out.append({'start': o, 'len_pos': o, 'lo_pos': o + 1, 'hi_pos': o + 2, 'payload': o + 3, 'term_pos': o + 3 + len(payload), 'end': o + 4 + len(payload)})
            o += 4 + len(payload)
    return out, o


def valid_plain_bytes(dialect):
    return [b for b in range(1, 256) if b != 0x0D and b != 0x22 and base_kind(dialect, b) == 'plain']


def gen_linenum_ref(rng):
    """Three bytes following 0x8D encoding a line number (documented formula)."""
    n = rng.weighted([(3, rng.below(65536)), (1, 0), (1, 65535), (2, rng.below(1000))])
    lo = n & 0xFF
    hi = (n >> 8) & 0xFF
    b1 = (((lo & 0xC0) >> 2) | ((hi & 0xC0) >> 4)) ^ 0x54
    b2 = (lo & 0x3F) | 0x40
    b3 = (hi & 0x3F) | 0x40
    return bytes([b1, b2, b3])


def gen_payload(rng, dialect, maxlen, same_len=None):
    """A token-valid line payload of length <= maxlen (exactly same_len if given)."""
    target = same_len if same_len is not None else rng.weighted([(2, rng.randint(0, 6)), (5, rng.randint(1, min(40, maxlen))), (1, rng.randint(1, maxlen))])
    target = min(target, maxlen)
    plain = valid_plain_bytes(dialect)
    keywords = [b for b in plain if b >= 0x80]
    printable = [b for b in plain if 0x20 <= b < 0x7F]
    out = bytearray()
    guard = 0
    while len(out) < target and guard < 2000:
        guard += 1
        room = target - len(out)
        kind = rng.weighted([(6, 'text'), (4, 'kw'), (2, 'string'), (1, 'ref'), (1, 'ext'), (1, 'loop')])
        if kind == 'text' and printable:
            out.append(rng.choice(printable))
        elif kind == 'kw' and keywords:
            out.append(rng.choice(keywords))
        elif kind == 'loop':
            b = rng.choice([0xE3, 0xED, 0xF5, 0xFD])
            if base_kind(dialect, b) == 'plain':
                out.append(b)
        elif kind == 'string' and room >= 2:
            ln = rng.randint(0, min(room - 2, 12))
            s = bytes(rng.choice([b for b in range(1, 256) if b not in (0x22, 0x0D)]) for _ in range(ln))
            out += b'"' + s + b'"'
        elif kind == 'ref' and room >= 4 and base_kind(dialect, 0x8D) == 'linenum':
            out += b'\x8d' + gen_linenum_ref(rng)
        elif kind == 'ext' and room >= 2:
            for intro in rng.shuffle([0xC6, 0xC7, 0xC8]):
                k = base_kind(dialect, intro)
                if k in ('c6', 'c7', 'c8'):
                    ok = [b for b in range(256) if ext_valid(dialect, k, b)]
                    if ok:
                        out += bytes([intro, rng.choice(ok)])
                        break
                if k == 'pdp':
                    if rng.chance(0.5):
                        out += bytes([intro, 0x98])
                    else:
                        out += bytes([intro, rng.choice(printable)])
                    break
    # pad to the exact length with printable text if a precise length was requested
    while same_len is not None and len(out) < target and printable:
        out.append(rng.choice(printable))
    # the payload must leave the string state balanced or unbalanced - both are legal
    return bytes(out[:target]) if payload_wellformed(dialect, bytes(out[:target])) else bytes(out[:0]) + _fallback(rng, printable, target)


def _fallback(rng, printable, target):
    return bytes(rng.choice(printable) for _ in range(target))


def gen_program(rng, dialect, nlines=None, equal_runs=True):
    """Returns list of (lineno, payload)."""
    if nlines is None:
        nlines = rng.weighted([(1, 0), (2, 1), (5, rng.randint(2, 8)), (3, rng.randint(5, 40)), (1, rng.randint(30, 120)),
                               # line counts around the powers of two a narrow counter would wrap at
                               (1, rng.choice([255, 256, 256, 257, 511, 512, 513, 768, 1024]))])
    be = is_big_endian(dialect)
    maxno = 65279 if be else 65535
    lines = []
    no = rng.weighted([(1, 0), (4, 10), (1, rng.randint(1, 1000))])
    step = rng.choice([1, 5, 10, 10, 10, 100])
    i = 0
    while i < nlines:
        if equal_runs and rng.chance(0.25):
            # a run of equal-length lines (biases toward the stale-buffer state)
            ln = rng.randint(1, 30)
            k = min(rng.randint(2, 4), nlines - i)
            for _ in range(k):
                lines.append((min(no, maxno), gen_payload(rng, dialect, 251, same_len=ln)))
                no += step
            i += k
        elif rng.chance(0.06):
            # the longest line the length byte can express (255 including framing)
            lines.append((min(no, maxno), gen_payload(rng, dialect, 251, same_len=251)))
            no += step
            i += 1
        elif rng.chance(0.08):
            # an empty line (BB4W/SDL write these for blank lines)
            lines.append((min(no, maxno), b''))
            no += step
            i += 1
        else:
            lines.append((min(no, maxno), gen_payload(rng, dialect, 251)))
            no += step
            i += 1
    if lines and rng.chance(0.25):
        # line numbers at the ends of the legal range (they need not be ascending in a stored program)
        k = rng.below(len(lines))
        lines[k] = (rng.choice([0, 1, maxno, maxno - 1, 32767, 32768, 255, 256]), lines[k][1])
    return lines
