"""Reference model of DFS discs (Acorn DFS, Watford 62-file, Opus DDOS) and the
sector-dump containers (.ssd/.sdd/.dsd/.ddd/.mmb).

The model is the *medium*: generate() lays out a well-formed disc, render()
produces the bytes of each surface, and the model itself says what every
catalogued file's body is.  Every sector is tagged with where it lives so a
byte that turns up in the wrong place names its origin."""

SECTOR = 256


def tag_sector(img_id, side, lba, rng_seed=0):
    """256 bytes: 16 blocks of [E7 img side lba_hi lba_lo k] + 10 filler bytes.
    The filler is SHAKE-128 of the identity (a standard function, so stable across
    Python versions, and computed at C speed)."""
    import hashlib
    fill = hashlib.shake_128(b'verif-sector:%d:%d:%d:%d' % (rng_seed, img_id, side, lba)).digest(160)
    out = bytearray(256)
    hdr = bytes([0xE7, img_id & 0xFF, side & 0xFF, (lba >> 8) & 0xFF, lba & 0xFF])
    for k in range(16):
        o = 16 * k
        out[o:o + 5] = hdr
        out[o + 5] = k
        out[o + 6:o + 16] = fill[10 * k:10 * k + 10]
    return bytes(out)


def parse_tags(data):
    """Return the list of (img, side, lba, k) for 16-byte aligned tag blocks found in data
    (alignment relative to data start)."""
    out = []
    for o in range(0, len(data) - 5, 16):
        if data[o] == 0xE7:
            out.append((data[o + 1], data[o + 2], (data[o + 3] << 8) | data[o + 4], data[o + 5]))
    return out


class FileEnt:
    __slots__ = ('dir', 'name', 'locked', 'load', 'exec', 'length', 'start', 'frag')

    def __init__(self, dir, name, locked, load, exec_, length, start, frag=0):
        self.dir = dir          # int 0..127
        self.name = name        # bytes, 1..7, no space/NUL inside unless hostile
        self.locked = locked
        self.load = load        # 18 bits
        self.exec = exec_       # 18 bits
        self.length = length    # 18 bits
        self.start = start      # 10 bits (relative to volume data origin for Opus)
        self.frag = frag        # Watford: 0 = first catalogue, 1 = second

    def nsectors(self):
        return (self.length + 255) // 256

    def last(self):
        return self.start if self.length == 0 else self.start + self.nsectors() - 1

    def to_json(self):
        return {'dir': self.dir, 'name': self.name, 'locked': self.locked, 'load': self.load, 'exec': self.exec,
                'length': self.length, 'start': self.start, 'frag': self.frag}

    @classmethod
    def from_json(cls, d):
        return cls(d['dir'], d['name'], d['locked'], d['load'], d['exec'], d['length'], d['start'], d.get('frag', 0))


def catalog_sectors(title, cycle, boot, total, files):
    """Two sectors of an Acorn-format catalogue fragment.  files in catalogue order."""
    s0 = bytearray(256)
    s1 = bytearray(256)
    t = (title + b'\0' * 12)[:12]
    s0[0:8] = t[0:8]
    s1[0:4] = t[8:12]
    s1[4] = cycle & 0xFF
    s1[5] = (8 * len(files)) & 0xFF
    s1[6] = ((boot & 3) << 4) | ((total >> 8) & 7)     # bit 2: b10 of the sector count on large (double-density) discs
    s1[7] = total & 0xFF
    for i, f in enumerate(files):
        o = 8 + 8 * i
        nm = (f.name + b' ' * 7)[:7]
        s0[o:o + 7] = nm
        s0[o + 7] = (f.dir & 0x7F) | (0x80 if f.locked else 0)
        s1[o + 0] = f.load & 0xFF
        s1[o + 1] = (f.load >> 8) & 0xFF
        s1[o + 2] = f.exec & 0xFF
        s1[o + 3] = (f.exec >> 8) & 0xFF
        s1[o + 4] = f.length & 0xFF
        s1[o + 5] = (f.length >> 8) & 0xFF
        s1[o + 6] = (((f.exec >> 16) & 3) << 6) | (((f.length >> 16) & 3) << 4) | (((f.load >> 16) & 3) << 2) | ((f.start >> 8) & 3)
        s1[o + 7] = f.start & 0xFF
    return bytes(s0), bytes(s1)


class Volume:
    """One catalogue + its files.  For Acorn/Watford there is exactly one, at origin 0."""

    def __init__(self, label, title, cycle, boot, total, files, origin=0, cat_at=0):
        self.label = label      # None or 'A'..'H'
        self.title = title
        self.cycle = cycle
        self.boot = boot
        self.total = total      # catalogue's total-sectors field
        self.files = files      # list of FileEnt in catalogue order
        self.origin = origin    # sector of volume data origin on the surface
        self.cat_at = cat_at    # sector of the catalogue

    def to_json(self):
        return {'label': self.label, 'title': self.title, 'cycle': self.cycle, 'boot': self.boot, 'total': self.total,
                'files': [f.to_json() for f in self.files], 'origin': self.origin, 'cat_at': self.cat_at}

    @classmethod
    def from_json(cls, d):
        return cls(d['label'], d['title'], d['cycle'], d['boot'], d['total'], [FileEnt.from_json(f) for f in d['files']],
                   d['origin'], d['cat_at'])


class Surface:
    """One side of a disc with one file system."""

    def __init__(self, variant, tracks, spt, volumes, img_id=1, side=0, fill_seed=0, overrides=None, post=None, unused=None):
        self.variant = variant   # 'acorn' | 'watford' | 'opus'
        self.tracks = tracks
        self.spt = spt
        self.volumes = volumes
        self.img_id = img_id
        self.side = side
        self.fill_seed = fill_seed
        self.overrides = overrides or {}   # lba(str) -> 256 bytes, applied after tagging (before catalogue)
        self.post = post or {}             # byte offset(str) -> [and_mask, or_mask], applied last (hostile catalogue bits)
        self.unused = unused               # None: every sector carries its tag; a byte value: sectors belonging to no file
                                           # and no catalogue hold that byte throughout, as on a freshly formatted disc

    @property
    def nsectors(self):
        return self.tracks * self.spt

    def to_json(self):
        return {'variant': self.variant, 'tracks': self.tracks, 'spt': self.spt, 'volumes': [v.to_json() for v in self.volumes],
                'img_id': self.img_id, 'side': self.side, 'fill_seed': self.fill_seed, 'overrides': self.overrides, 'post': self.post, 'unused': self.unused}

    @classmethod
    def from_json(cls, d):
        return cls(d['variant'], d['tracks'], d['spt'], [Volume.from_json(v) for v in d['volumes']], d['img_id'], d['side'],
                   d['fill_seed'], d.get('overrides'), d.get('post'), d.get('unused'))

    def render(self):
        n = self.nsectors
        if self.variant == 'blank':
            # an unformatted side: a formatter's filler pattern, no catalogue
            return bytes([self.fill_seed & 0xFF]) * (n * 256)
        buf = bytearray()
        for lba in range(n):
            buf += tag_sector(self.img_id, self.side, lba, self.fill_seed)
        if self.unused is not None:
            used = bytearray(n)
            for v in self.volumes:
                for f in v.files:
                    for lba in range(v.origin + f.start, min(n, v.origin + f.start + f.nsectors())):
                        used[lba] = 1
            blank = bytes([self.unused & 0xFF]) * 256
            for lba in range(n):
                if not used[lba]:
                    buf[lba * 256:(lba + 1) * 256] = blank
        for k, v in self.overrides.items():
            lba = int(k)
            buf[lba * 256:lba * 256 + len(v)] = v
        if self.variant in ('acorn', 'watford'):
            v = self.volumes[0]
            f0 = [f for f in v.files if f.frag == 0]
            s0, s1 = catalog_sectors(v.title, v.cycle, v.boot, v.total, f0)
            buf[0:256] = s0
            buf[256:512] = s1
            if self.variant == 'watford':
                f1 = [f for f in v.files if f.frag == 1]
                t0, t1 = catalog_sectors(b'\xAA' * 8 + v.title[8:12], v.cycle, v.boot, v.total, f1)
                t0 = bytearray(t0)
                t0[0:8] = b'\xAA' * 8
                buf[512:768] = bytes(t0)
                buf[768:1024] = t1
        else:
            # Opus DDOS: track 0 holds catalogues for A..H at sectors 0..15, disc catalogue at 16
            for v in self.volumes:
                s0, s1 = catalog_sectors(v.title, v.cycle, v.boot, v.total, v.files)
                buf[v.cat_at * 256:(v.cat_at + 1) * 256] = s0
                buf[(v.cat_at + 1) * 256:(v.cat_at + 2) * 256] = s1
            s16 = bytearray(256)
            s16[0] = 0x20
            s16[1] = (n >> 8) & 0xFF
            s16[2] = n & 0xFF
            s16[3] = 18
            s16[4] = self.tracks
            for i, v in enumerate(self.volumes):
                s16[8 + 2 * i] = v.origin // 18
                s16[9 + 2 * i] = (v.total // 18) & 0xFF
            buf[16 * 256:17 * 256] = s16
            # unused catalogue slots: zero (an absent volume has track 0)
            used = set()
            for v in self.volumes:
                used.add(v.cat_at)
                used.add(v.cat_at + 1)
            for s in range(16):
                if s not in used:
                    buf[s * 256:(s + 1) * 256] = bytes(256)
            buf[17 * 256:18 * 256] = bytes(256)
        for k, (am, om) in self.post.items():
            buf[int(k)] = (buf[int(k)] & am) | om
        return bytes(buf)

    def body(self, rendered, vol, f):
        o = (vol.origin + f.start) * 256
        return rendered[o:o + f.length]

    def all_files(self):
        for v in self.volumes:
            for f in v.files:
                yield v, f


# ------------------------------------------------------------------ generation

NAME_CHARS = b'ABCDEFGHIJKLMNOPQRSTUVWXYZ0123456789abcdefghijklmnopqrstuvwxyz!_-+%&@'
DIR_CHARS = b'$ABCDEFGHIJKLMNOPQRSTUVWXYZabcdwxyz0123456789!&'

GEOMS_FM = [(40, 10), (80, 10), (35, 10)]
GEOMS_MFM = [(40, 18), (80, 18), (35, 18), (40, 16), (80, 16), (35, 16)]


def gen_names(rng, n, hostile=False):
    """n distinct (dir, name) pairs; distinct case-insensitively."""
    seen = set()
    out = []
    while len(out) < n:
        if out and rng.chance(0.08):
            # a near-collision: same name but for one non-letter character and its counterpart 0x20 away
            # ([ and {, \ and |, ] and }, ^ and ~, @ and `): DFS folds the case of letters only
            d0, n0 = rng.choice(out)
            pos = rng.below(len(n0))
            a, b = rng.choice([(0x5B, 0x7B), (0x5C, 0x7C), (0x5D, 0x7D), (0x5E, 0x7E), (0x40, 0x60)])
            first = n0[:pos] + bytes([a]) + n0[pos + 1:]
            second = n0[:pos] + bytes([b]) + n0[pos + 1:]
            for cand in (first, second):
                key = (chr(d0).upper(), cand.upper())
                if key not in seen and len(out) < n:
                    seen.add(key)
                    out.append((d0, cand))
            continue
        ln = rng.weighted([(3, 7), (2, 1), (6, rng.randint(2, 6))])
        name = bytes(rng.choice(NAME_CHARS) for _ in range(ln))
        d = rng.choice(DIR_CHARS) if rng.chance(0.4) else ord('$')
        key = (chr(d).upper(), name.upper())
        if key in seen:
            continue
        seen.add(key)
        out.append((d, name))
    return out


def layout_files(rng, nfiles, first_free, total, maxlen_sectors=None, style=None):
    """Choose (start, length) for nfiles files inside [first_free, total), no overlap.
    Returns list sorted by descending start (catalogue order)."""
    style = style or rng.weighted([(4, 'packed'), (3, 'gaps'), (2, 'top'), (1, 'tiny'), (1, 'big')])
    avail = total - first_free
    files = []
    if nfiles == 0 or avail <= 0:
        return files
    # choose sector counts
    counts = []
    remaining = avail
    for i in range(nfiles):
        left = nfiles - i
        if style == 'tiny':
            c = rng.weighted([(3, 0), (5, 1), (2, 2)])
        elif style == 'big' and i == 0:
            # one file longer than 64 KiB (and, where the disc allows, than 128 KiB: both high length bits)
            room = remaining - (left - 1)
            c = min(room, rng.choice([257, 300, 513, 600, 1000]))
        else:
            mx = max(1, min(remaining - (left - 1), maxlen_sectors or remaining))
            c = rng.weighted([(1, 0), (6, rng.randint(1, min(mx, 4))), (3, rng.randint(1, min(mx, 40))), (1, rng.randint(1, mx))])
        c = min(c, max(0, remaining - (left - 1)))
        counts.append(c)
        remaining -= max(c, 0)
    slack = avail - sum(counts)
    pos = first_free
    if style == 'top':
        pos = first_free + slack
        slack = 0
    out = []
    order = list(range(nfiles))
    for i in order:
        gap = 0
        if slack > 0 and style in ('gaps', 'tiny') and rng.chance(0.5):
            gap = rng.randint(0, min(slack, 30))
            slack -= gap
        pos += gap
        c = counts[i]
        if c == 0:
            length = 0
            start = min(pos, total - 1)
        else:
            rem = rng.weighted([(2, 0), (3, rng.randint(1, 255)), (1, 1), (1, 255)])
            length = c * 256 - ((256 - rem) % 256 if rem else 0)
            if length <= (c - 1) * 256:
                length = c * 256
            start = pos
        out.append((start, length))
        pos += c
    out.sort(key=lambda t: -t[0])
    return out


def gen_volume(rng, label, total, first_free, maxfiles, origin=0, cat_at=0, nfiles=None, frag_split=False):
    if nfiles is None:
        nfiles = rng.weighted([(1, 0), (2, 1), (4, rng.randint(2, 6)), (3, rng.randint(1, maxfiles)), (1, maxfiles)])
    nfiles = min(nfiles, maxfiles, max(0, total - first_free))
    placements = layout_files(rng, nfiles, first_free, total)
    names = gen_names(rng, len(placements))
    files = []
    for (start, length), (d, name) in zip(placements, names):
        load = rng.weighted([(2, 0x1900), (2, 0x31900 | 0x20000), (3, rng.below(1 << 18))])
        ex = rng.weighted([(2, 0x8023), (2, 0x3FFFF), (3, rng.below(1 << 18))])
        files.append(FileEnt(d, name, rng.chance(0.3), load & 0x3FFFF, ex & 0x3FFFF, length, start))
    if frag_split and rng.chance(0.35):
        # a file whose start sector has low byte 2 (258, 514, 770): legal, and the spot where a reader that
        # looks only at the low byte would confuse it with the Watford marker sector
        cands = [x for x in (258, 514, 770) if x + 2 < total]
        if cands:
            S = rng.choice(cands)
            nsec = rng.randint(1, 2)
            files = [f for f in files if f.length == 0 and not (S <= f.start < S + nsec) or f.length and (f.last() < S or f.start >= S + nsec)]
            if len(files) < 62:
                d0, n0 = gen_names(rng, 1)[0]
                while any((f.dir, f.name.upper()) == (d0, n0.upper()) for f in files):
                    d0, n0 = gen_names(rng, 1)[0]
                files.append(FileEnt(d0, n0, False, 0x1900, 0x8023, nsec * 256 - rng.choice([0, 3]), S))
                files.sort(key=lambda f: -f.start)
    if frag_split:
        # Watford: distribute over the two catalogue halves; each half holds <=31 and is
        # itself in descending start order (a subsequence of a sorted list is sorted)
        n = len(files)
        mode = rng.weighted([(2, 'first'), (2, 'second'), (4, 'mixed')])
        for i, f in enumerate(files):
            if mode == 'first':
                f.frag = 0 if i < 31 else 1
            elif mode == 'second':
                f.frag = 1 if i < 31 else 0
            else:
                f.frag = rng.below(2)
        for half in (0, 1):
            while sum(1 for f in files if f.frag == half) > 31:
                for f in files:
                    if f.frag == half:
                        f.frag = 1 - half
                        break
    title = bytes(rng.choice(b'ABCDEFGHIJKLMNOPQRSTUVWXYZ0123456789 -') for _ in range(rng.weighted([(1, 0), (2, 12), (3, rng.randint(1, 11))])))
    title = title.rstrip(b' ')
    cycle = rng.choice([0x00, 0x01, 0x09, 0x10, 0x42, 0x99])
    return Volume(label, title, cycle, rng.below(4), total, files, origin, cat_at)


def gen_surface(rng, variant=None, img_id=1, side=0, geom=None, density=None):
    s = _gen_surface(rng, variant, img_id, side, geom, density)
    if rng.chance(0.3):
        # unused space as a formatter leaves it (zeros or the 0xE5 filler) rather than tagged: the geometry probing
        # rules look at sectors where the *other* candidate layouts would keep a catalogue, and what lies there matters
        s.unused = rng.choice([0x00, 0x00, 0xE5])
    return s


def _gen_surface(rng, variant=None, img_id=1, side=0, geom=None, density=None):
    variant = variant or rng.weighted([(5, 'acorn'), (3, 'watford'), (3, 'opus')])
    if variant == 'opus':
        tracks = geom[0] if geom else rng.weighted([(4, 40), (3, 80), (2, 35)])
        spt = 18
        nvol = rng.weighted([(3, 1), (3, 2), (2, rng.randint(3, 7)), (1, 8)])
        nvol = min(nvol, tracks - 1)
        # volume start tracks: increasing, first at track 1
        cuts = sorted(rng.sample(range(2, tracks), nvol - 1)) if nvol > 1 else []
        if nvol > 1 and rng.chance(0.35):
            # a volume of exactly one track (the legal minimum): make two neighbouring boundaries adjacent
            k = rng.below(len(cuts))
            want = cuts[k] + 1 if cuts[k] + 1 < tracks else cuts[k] - 1
            if k + 1 < len(cuts):
                if want not in cuts and 2 <= want < tracks:
                    cuts[k + 1] = want
                    cuts = sorted(set(cuts))
            elif cuts[k] != tracks - 1 and (tracks - 1) not in cuts:
                cuts[k] = tracks - 1
                cuts = sorted(set(cuts))
            elif k == 0 and 2 not in cuts:
                cuts[0] = 2
                cuts = sorted(set(cuts))
            nvol = len(cuts) + 1
        starts = [1] + cuts
        ends = cuts + [tracks]
        if nvol > 1 and rng.chance(0.3):
            # letters need not follow the physical order of the volumes on the disc
            regions = rng.shuffle(list(zip(starts, ends)))
            starts = [a for a, b in regions]
            ends = [b for a, b in regions]
        vols = []
        for i in range(nvol):
            size = (ends[i] - starts[i]) * 18
            total = min(size, 1023)
            v = gen_volume(rng, 'ABCDEFGH'[i], total, 0, 31, origin=starts[i] * 18, cat_at=2 * i)
            vols.append(v)
        return Surface('opus', tracks, 18, vols, img_id, side, rng.next64() & 0xFFFF)
    if geom is None:
        if density == 'mfm':
            geom = rng.choice(GEOMS_MFM)
        elif density == 'fm':
            geom = rng.choice(GEOMS_FM)
        else:
            geom = rng.weighted([(6, rng.choice(GEOMS_FM)), (3, rng.choice(GEOMS_MFM))])
    tracks, spt = geom
    n = tracks * spt
    total = min(n, 1023)
    if variant == 'watford':
        v = gen_volume(rng, None, total, 4, 62, frag_split=True)
    else:
        v = gen_volume(rng, None, total, 2, 31)
    return Surface(variant, tracks, spt, [v], img_id, side, rng.next64() & 0xFFFF)


# ------------------------------------------------------------------ containers

def geometry_is_identifiable(surface, ext, two_sided=False):
    """Would the documented probing rules pick exactly this geometry?  The SUT
    picks, among candidate geometries large enough for the catalogue's sector
    count (single-sided count), the smallest, preferring non-16-sector ones;
    so a disc is identifiable when its own geometry is that choice."""
    total = surface.nsectors if surface.variant == 'opus' else surface.volumes[0].total
    enc = 'fm' if ext in ('ssd', 'dsd') else 'mfm'
    cands = []
    for tracks in (40, 80, 35):
        for spt in ((10,) if enc == 'fm' else (18, 16)):
            if tracks * spt >= total:
                cands.append((tracks, spt))
    if not cands:
        return False
    non16 = [c for c in cands if c[1] != 16]
    pool = non16 or cands
    best = min(pool, key=lambda c: c[0] * c[1])
    return best == (surface.tracks, surface.spt)


def ssd_image(sides):
    """Non-interleaved: side 0 then side 1."""
    return b''.join(sides)


def dsd_image(side0, side1, spt):
    out = bytearray()
    tl = spt * 256
    ntr = len(side0) // tl
    for t in range(ntr):
        out += side0[t * tl:(t + 1) * tl]
        out += side1[t * tl:(t + 1) * tl]
    return bytes(out)


MMB_SLOT = 204800
MMB_TABLE = 8192


def mmb_image(slots, nslots_materialised=None):
    """slots: dict slot_no -> (status_byte, title bytes, 204800-byte image or None).
    Returns the bytes of an MMB file long enough to hold the highest populated slot."""
    hi = max(slots) if slots else 0
    n = (nslots_materialised if nslots_materialised is not None else hi + 1)
    table = bytearray(MMB_TABLE)
    table[0:4] = bytes([0, 1, 2, 3])
    for i in range(511):
        o = 16 + 16 * i
        table[o + 15] = 0xFF
    for s, (status, title, img) in slots.items():
        o = 16 + 16 * s
        table[o:o + 12] = (title + b'\0' * 12)[:12]
        table[o + 15] = status
    out = bytearray(table)
    for s in range(n):
        if s in slots and slots[s][2] is not None:
            img = slots[s][2]
            out += (img + bytes(MMB_SLOT))[:MMB_SLOT]
        else:
            out += bytes(MMB_SLOT)
    return bytes(out)
