"""Flux-level encoders: FM (IBM 3740) and MFM (System 34) track writers with a
region map, HFE v1/v3 and HxC-MFM container writers.  Cells are kept as Python
lists of 0/1 in the order they pass the head."""

# ---------------------------------------------------------------- CRC


def crc16(data, crc=0xFFFF):
    for b in data:
        crc ^= b << 8
        for _ in range(8):
            crc = ((crc << 1) ^ 0x1021) & 0xFFFF if crc & 0x8000 else (crc << 1) & 0xFFFF
    return crc


_CRC_TAB = None


def crc16_fast(data, crc=0xFFFF):
    global _CRC_TAB
    if _CRC_TAB is None:
        _CRC_TAB = []
        for i in range(256):
            c = i << 8
            for _ in range(8):
                c = ((c << 1) ^ 0x1021) & 0xFFFF if c & 0x8000 else (c << 1) & 0xFFFF
            _CRC_TAB.append(c)
    t = _CRC_TAB
    for b in data:
        crc = ((crc << 8) & 0xFFFF) ^ t[((crc >> 8) ^ b) & 0xFF]
    return crc


# ---------------------------------------------------------------- cell writers

class TrackWriter:
    """Accumulates cells and a region map: list of (name, sector_record|None, first_cell, end_cell)."""

    def __init__(self):
        self.cells = []
        self.regions = []

    def mark(self, name, rec, start):
        self.regions.append((name, rec, start, len(self.cells)))


def _fm_tab(clock):
    tab = []
    for data in range(256):
        c = []
        for i in range(7, -1, -1):
            c.append((clock >> i) & 1)
            c.append((data >> i) & 1)
        tab.append(tuple(c))
    return tab


_FM_FF = _fm_tab(0xFF)


class FmWriter(TrackWriter):
    def byte(self, data, clock=0xFF):
        if clock == 0xFF:
            self.cells.extend(_FM_FF[data])
            return
        c = self.cells
        for i in range(7, -1, -1):
            c.append((clock >> i) & 1)
            c.append((data >> i) & 1)

    def fill(self, data, n):
        self.cells.extend(_FM_FF[data] * n)

    def bytes_(self, bs):
        ext = self.cells.extend
        t = _FM_FF
        for b in bs:
            ext(t[b])


def _mfm_tab():
    tab = [[], []]
    for prev0 in (0, 1):
        for data in range(256):
            prev = prev0
            c = []
            for i in range(7, -1, -1):
                d = (data >> i) & 1
                c.append(0 if (prev or d) else 1)
                c.append(d)
                prev = d
            tab[prev0].append(tuple(c))
    return tab


_MFM = _mfm_tab()


class MfmWriter(TrackWriter):
    def __init__(self):
        super().__init__()
        self.prev = 0

    def byte(self, data):
        self.cells.extend(_MFM[self.prev][data])
        self.prev = data & 1

    def bytes_(self, bs):
        ext = self.cells.extend
        prev = self.prev
        t = _MFM
        for b in bs:
            ext(t[prev][b])
            prev = b & 1
        self.prev = prev

    def raw16(self, word, last_data_bit):
        c = self.cells
        for i in range(15, -1, -1):
            c.append((word >> i) & 1)
        self.prev = last_data_bit

    def a1(self):
        self.raw16(0x4489, 1)

    def c2(self):
        self.raw16(0x5224, 0)

    def fill(self, data, n):
        for _ in range(n):
            self.byte(data)


def default_params(enc):
    if enc == 'fm':
        return {'gap1': 16, 'sync': 6, 'gap2': 11, 'gap3': 21, 'gap4': 30, 'index_mark': False}
    return {'gap1': 50, 'sync': 12, 'gap2': 22, 'gap3': 40, 'gap4': 60, 'index_mark': False, 'gap4a': 0}


def gen_params(rng, enc, spt):
    """Legal gap lengths across their ranges (the decoder needs >= 2 FM sync bytes / 1 MFM sync byte)."""
    p = default_params(enc)
    if enc == 'fm':
        p['gap1'] = rng.choice([0, 1, 10, 16, 26, 40])
        p['sync'] = rng.choice([2, 3, 6, 6, 6, 8])
        p['gap2'] = rng.choice([8, 11, 11, 11, 14])
        p['gap3'] = rng.choice([10, 16, 21, 21, 27, 36])
        p['gap4'] = rng.choice([0, 1, 30, 100])
        p['index_mark'] = rng.chance(0.3)
    else:
        p['gap1'] = rng.choice([0, 10, 32, 50, 60])
        p['sync'] = rng.choice([2, 8, 12, 12, 12, 14])
        p['gap2'] = rng.choice([18, 22, 22, 22, 26])
        p['gap3'] = rng.choice([20, 24, 40, 46, 54]) if spt <= 16 else rng.choice([12, 20, 24, 30])
        p['gap4'] = rng.choice([0, 1, 60, 200])
        p['index_mark'] = rng.chance(0.3)
        p['gap4a'] = rng.choice([0, 40, 80]) if p['index_mark'] else 0
        if rng.chance(0.35):
            p['odd_phase'] = sorted(rng.sample(range(spt), rng.weighted([(3, 1), (2, 3), (1, spt)])))
    return p


def encode_track(enc, cyl, head, sectors, params=None, size_code=1):
    """sectors: list of (record_number, 256-byte payload[, data mark byte]) in physical order; the data mark
    defaults to 0xFB (0xF8 = deleted data; 0xF9/0xFA are the other marks a WD177x can write).
    Returns (cells, regions)."""
    p = params or default_params(enc)
    # a fourth element overrides the ID field (c, h, r, n) recorded for the sector - with a valid ID CRC -
    # while the region map keeps naming the sector by t[0]
    idov = {t[0]: t[3] for t in sectors if len(t) > 3 and t[3]}
    # a fifth element overrides the stored data CRC (two bytes) - a field whose checksum was computed some other way
    crcov = {t[0]: t[4] for t in sectors if len(t) > 4 and t[4] is not None}
    sectors = [(t[0], t[1], t[2] if len(t) > 2 and t[2] is not None else 0xFB) for t in sectors]
    if enc == 'fm':
        w = FmWriter()
        s = len(w.cells)
        if p.get('index_mark'):
            w.fill(0xFF, 10)
            w.fill(0x00, 6)
            w.byte(0xFC, 0xD7)
        w.fill(0xFF, p['gap1'])
        w.mark('gap1', None, s)
        for rec, payload, dmark in sectors:
            s = len(w.cells)
            w.fill(0x00, p['sync'])
            w.mark('sync', rec, s)
            s = len(w.cells)
            w.byte(0xFE, 0xC7)
            w.mark('idmark', rec, s)
            s = len(w.cells)
            idf = bytes(idov.get(rec, (cyl, head, rec, size_code)))
            for b in idf:
                w.byte(b)
            w.mark('id', rec, s)
            s = len(w.cells)
            c = crc16_fast(bytes([0xFE]) + idf)
            w.byte(c >> 8)
            w.byte(c & 0xFF)
            w.mark('idcrc', rec, s)
            if dmark == -1:
                s = len(w.cells)
                w.fill(0xFF, p['gap3'])
                w.mark('gap3', rec, s)
                continue
            s = len(w.cells)
            w.fill(0xFF, p['gap2'])
            w.fill(0x00, p['sync'])
            w.mark('gap2', rec, s)
            s = len(w.cells)
            w.byte(dmark, 0xC7)
            w.mark('datamark', rec, s)
            s = len(w.cells)
            w.bytes_(payload)
            w.mark('data', rec, s)
            s = len(w.cells)
            c = crc16_fast(bytes([dmark]) + bytes(payload))
            if rec in crcov:
                c = crcov[rec]
            w.byte(c >> 8)
            w.byte(c & 0xFF)
            w.mark('datacrc', rec, s)
            s = len(w.cells)
            w.fill(0xFF, p['gap3'])
            w.mark('gap3', rec, s)
        s = len(w.cells)
        w.fill(0xFF, p['gap4'])
        w.mark('gap4', None, s)
        return w.cells, w.regions
    w = MfmWriter()
    s = len(w.cells)
    if p.get('index_mark'):
        w.fill(0x4E, p.get('gap4a', 80))
        w.fill(0x00, 12)
        w.c2()
        w.c2()
        w.c2()
        w.byte(0xFC)
    w.fill(0x4E, p['gap1'])
    w.mark('gap1', None, s)
    for rec, payload, dmark in sectors:
        s = len(w.cells)
        w.fill(0x00, p['sync'])
        w.a1()
        w.a1()
        w.a1()
        w.mark('sync', rec, s)
        s = len(w.cells)
        w.byte(0xFE)
        w.mark('idmark', rec, s)
        s = len(w.cells)
        idf = bytes(idov.get(rec, (cyl, head, rec, size_code)))
        for b in idf:
            w.byte(b)
        w.mark('id', rec, s)
        s = len(w.cells)
        c = crc16_fast(b'\xa1\xa1\xa1\xfe' + idf)
        w.byte(c >> 8)
        w.byte(c & 0xFF)
        w.mark('idcrc', rec, s)
        if dmark == -1:
            # an ID field whose data field was never written (or was overwritten by the next sector's preamble):
            # straight on to the gap before the next sector
            s = len(w.cells)
            w.fill(0x4E, p['gap3'])
            w.mark('gap3', rec, s)
            continue
        s = len(w.cells)
        w.fill(0x4E, p['gap2'])
        if rec in (p.get('odd_phase') or ()):
            # a sector rewritten in place: the drive's write splice leaves its data field a whole number of raw
            # cells, but not of bit cells, after the ID field - here one extra (legal) zero cell inside the gap
            w.cells.append(0)
        w.fill(0x00, p['sync'])
        w.a1()
        w.a1()
        w.a1()
        w.mark('gap2', rec, s)
        s = len(w.cells)
        w.byte(dmark)
        w.mark('datamark', rec, s)
        s = len(w.cells)
        w.bytes_(payload)
        w.mark('data', rec, s)
        s = len(w.cells)
        c = crc16_fast(b'\xa1\xa1\xa1' + bytes([dmark]) + bytes(payload))
        if rec in crcov:
            c = crcov[rec]
        w.byte(c >> 8)
        w.byte(c & 0xFF)
        w.mark('datacrc', rec, s)
        s = len(w.cells)
        w.fill(0x4E, p['gap3'])
        w.mark('gap3', rec, s)
    s = len(w.cells)
    w.fill(0x4E, p['gap4'])
    w.mark('gap4', None, s)
    return w.cells, w.regions


# ---------------------------------------------------------------- cells -> bytes

def cells_to_bytes_lsb(cells):
    """Pack cells LSB-first (HFE order); pad the last byte with zero cells."""
    n = len(cells)
    if n % 8:
        cells = list(cells) + [0] * (8 - n % 8)
    return bytes(cells[i] | cells[i + 1] << 1 | cells[i + 2] << 2 | cells[i + 3] << 3 | cells[i + 4] << 4 | cells[i + 5] << 5
                 | cells[i + 6] << 6 | cells[i + 7] << 7 for i in range(0, len(cells), 8))


def cells_to_bytes_msb(cells):
    n = len(cells)
    if n % 8:
        cells = list(cells) + [0] * (8 - n % 8)
    return bytes(cells[i] << 7 | cells[i + 1] << 6 | cells[i + 2] << 5 | cells[i + 3] << 4 | cells[i + 4] << 3 | cells[i + 5] << 2
                 | cells[i + 6] << 1 | cells[i + 7] for i in range(0, len(cells), 8))


def fm_cells_to_raw(cells):
    """HFE stores FM at double rate: each FM cell occupies two raw bit positions, the cell on the odd one."""
    raw = [0] * (2 * len(cells))
    raw[1::2] = cells
    return raw


def simdisk_bitstream(enc, cells):
    """Bytes + (first_bit, stride) in the form Track::BitStream expects for DECODE."""
    if enc == 'fm':
        return cells_to_bytes_lsb(fm_cells_to_raw(cells)), 1, 2
    return cells_to_bytes_lsb(cells), 0, 1


# ---------------------------------------------------------------- HFE container

REV = bytes(int('{:08b}'.format(i)[::-1], 2) for i in range(256))
OPC = {'nop': 0xF0, 'setindex': 0xF1, 'setbitrate': 0xF2, 'skipbits': 0xF3, 'rand': 0xF4}


def hfe_side_stream(enc, cells, v3_ops=None):
    """Raw byte stream for one side of one track, in file byte values (already bit-reversed as stored).
    v3_ops: list of (byte_index, 'nop'|'setindex'|('setbitrate', v)) inserted before that data byte."""
    raw = fm_cells_to_raw(cells) if enc == 'fm' else cells
    data = cells_to_bytes_lsb(raw)       # file byte value: first cell in bit 0
    if not v3_ops:
        return data
    out = bytearray()
    ops = {}
    for idx, op in v3_ops:
        ops.setdefault(idx, []).append(op)
    for i, b in enumerate(data):
        for op in ops.get(i, []):
            if isinstance(op, tuple):
                out.append(REV[OPC[op[0]]])
                out.append(REV[op[1]])
            else:
                out.append(REV[OPC[op]])
        out.append(b)
    return bytes(out)


def hfe_file(version, enc, tracks, sides=1, bitrate=250, pad_tracks=None, header_overrides=None, exact_len=None):
    """tracks: list (per cylinder) of list (per side) of side-stream bytes.
    Returns file bytes.  Each track's two side streams are interleaved in 256-byte blocks."""
    ntr = len(tracks)
    hdr = bytearray(b'\xff' * 512)
    hdr[0:8] = b'HXCPICFE' if version == 1 else b'HXCHFEV3'
    hdr[8] = 0
    hdr[9] = ntr
    hdr[10] = sides
    hdr[11] = 2 if enc == 'fm' else 0
    hdr[12:14] = bitrate.to_bytes(2, 'little')
    hdr[14:16] = (0).to_bytes(2, 'little')
    hdr[16] = 7
    hdr[17] = 1
    hdr[18:20] = (1).to_bytes(2, 'little')
    hdr[20] = 0xFF
    hdr[21] = 0xFF
    hdr[22:26] = b'\xff\xff\xff\xff'
    if header_overrides:
        for k, v in header_overrides.items():
            hdr[int(k)] = v
    lut = bytearray(b'\xff' * 512)
    body = bytearray()
    pos_blocks = 2
    for t, sd in enumerate(tracks):
        s0 = sd[0]
        s1 = sd[1] if len(sd) > 1 else b''
        n = max(len(s0), len(s1))
        nblocks = (n + 255) // 256
        tr = bytearray()
        for b in range(nblocks):
            # side 0 then side 1 in 256-byte blocks; the last pair is padded to full blocks
            c0 = s0[b * 256:(b + 1) * 256]
            c1 = s1[b * 256:(b + 1) * 256]
            tr += c0 + bytes(256 - len(c0)) + c1 + bytes(256 - len(c1))
        # the LUT records the byte length of both sides together (the reader rounds it up to 512)
        track_len = 2 * n if (exact_len and exact_len[t]) else len(tr)
        lut[4 * t:4 * t + 2] = pos_blocks.to_bytes(2, 'little')
        lut[4 * t + 2:4 * t + 4] = (track_len & 0xFFFF).to_bytes(2, 'little')
        padded = len(tr)
        track_len_for_pad = track_len
        extra = (pad_tracks[t] if pad_tracks else 0) * 512
        body += tr + bytes(extra)
        pos_blocks += (padded + extra) // 512
    return bytes(hdr) + bytes(lut) + bytes(body)


def hxcmfm_file(tracks, sides=1, bitrate=250, rpm=300, shuffle=None):
    """tracks: list per cylinder of list per side of cells (MFM).  Track bytes are MSB-first."""
    ntr = len(tracks)
    recs = []
    blobs = []
    for t in range(ntr):
        for s in range(sides):
            blobs.append((t, s, cells_to_bytes_msb(tracks[t][s])))
    hdr = bytearray(b'HXCMFM\0')
    hdr += ntr.to_bytes(2, 'little') + bytes([sides]) + rpm.to_bytes(2, 'little') + bitrate.to_bytes(2, 'little') + bytes([4])
    hdr += (19).to_bytes(4, 'little')
    off = 19 + 11 * len(blobs)
    # data area aligned like the HxC tool does (not required by the reader)
    body = bytearray()
    for t, s, blob in blobs:
        recs.append(t.to_bytes(2, 'little') + bytes([s]) + len(blob).to_bytes(4, 'little') + (off + len(body)).to_bytes(4, 'little'))
        body += blob
    return bytes(hdr) + b''.join(recs) + bytes(body)


# ---------------------------------------------------------------- whole surfaces

def sector_order(rng, spt, style=None):
    style = style or rng.choice(['seq', 'seq', 'interleave2', 'skew', 'random'])
    if style == 'seq':
        return list(range(spt))
    if style == 'interleave2':
        out = [None] * spt
        pos = 0
        for r in range(spt):
            while out[pos % spt] is not None:
                pos += 1
            out[pos % spt] = r
            pos += 2
        return out
    if style == 'skew':
        k = rng.below(spt)
        return list(range(k, spt)) + list(range(k))
    lst = list(range(spt))
    rng.shuffle(lst)
    return lst


def surface_tracks(enc, surface_bytes, tracks, spt, head, params_for, order_for):
    """Encode every track of one surface.  Returns list of (cells, regions)."""
    out = []
    for t in range(tracks):
        order = order_for(t)
        secs = [(r, surface_bytes[(t * spt + r) * 256:(t * spt + r + 1) * 256]) for r in order]
        out.append(encode_track(enc, t, head, secs, params_for(t)))
    return out


def wrong_crcs(enc, dmark, payload):
    """Checksums a careless writer (or a lenient reader) might use instead of the real one: CRC-16/CCITT over the
    wrong span, with the wrong initial value, byte-swapped, or another 16-bit sum altogether."""
    body = bytes([dmark]) + bytes(payload)
    full = (b'\xa1\xa1\xa1' if enc == 'mfm' else b'') + body
    real = crc16_fast(full)
    out = {}
    out['no-sync-bytes'] = crc16_fast(body)
    out['data-only'] = crc16_fast(bytes(payload))
    out['init-0'] = crc16_fast(full, 0x0000)
    out['byte-swapped'] = ((real & 0xFF) << 8) | (real >> 8)
    out['complemented'] = real ^ 0xFFFF
    out['sum16'] = sum(full) & 0xFFFF
    out['one-sync-byte'] = crc16_fast((b'\xa1' if enc == 'mfm' else b'\xfb') + body)
    return {k: v for k, v in out.items() if v != real}
