"""gzip container writer with controllable parameters, and the reference
decoder verdict used by C10 (Python zlib, wbits=31, following members)."""

import struct
import zlib


def member(data, level=6, fname=None, fextra=None, fcomment=None, fhcrc=False, mtime=0, xfl=0, os_=3, strategy=0):
    flg = 0
    if fextra is not None:
        flg |= 4
    if fname is not None:
        flg |= 8
    if fcomment is not None:
        flg |= 16
    if fhcrc:
        flg |= 2
    hdr = bytearray(b'\x1f\x8b\x08' + bytes([flg]) + mtime.to_bytes(4, 'little') + bytes([xfl, os_]))
    if fextra is not None:
        hdr += len(fextra).to_bytes(2, 'little') + fextra
    if fname is not None:
        hdr += fname + b'\0'
    if fcomment is not None:
        hdr += fcomment + b'\0'
    if fhcrc:
        hdr += (zlib.crc32(bytes(hdr)) & 0xFFFF).to_bytes(2, 'little')
    co = zlib.compressobj(level, zlib.DEFLATED, -15, 8, strategy)
    body = co.compress(data) + co.flush()
    trailer = (zlib.crc32(data) & 0xFFFFFFFF).to_bytes(4, 'little') + (len(data) & 0xFFFFFFFF).to_bytes(4, 'little')
    return bytes(hdr) + body + trailer


def compress(data, params):
    """params: {'level', 'fname', 'fextra', 'fcomment', 'fhcrc', 'mtime', 'splits': [fractions/1000],
                'align': delta} - with 'align' the first member (the whole stream if there is one member) is padded,
                through the length of its FCOMMENT field, so that it ends delta bytes past a multiple of 512
                (the size of the tool's input buffer)."""
    splits = params.get('splits') or []
    cuts = sorted(set(min(len(data), (len(data) * s) // 1000) for s in splits))
    parts = []
    prev = 0
    for c in cuts:
        parts.append(data[prev:c])
        prev = c
    parts.append(data[prev:])
    out = b''
    for i, p in enumerate(parts):
        kw = dict(level=params.get('level', 6), fname=params.get('fname') if i == 0 else None,
                  fextra=params.get('fextra') if i == 0 else None, fcomment=params.get('fcomment') if i == 0 else None,
                  fhcrc=params.get('fhcrc', False), mtime=params.get('mtime', 0), strategy=params.get('strategy', 0))
        m = member(p, **kw)
        if i == 0 and params.get('align') is not None:
            base = kw['fcomment'] if kw['fcomment'] is not None else b''
            if kw['fcomment'] is None:
                kw['fcomment'] = b''
                m = member(p, **kw)
            want = params['align'] % 512
            pad = (want - len(m)) % 512
            kw['fcomment'] = base + b'x' * pad
            m = member(p, **kw)
            assert len(m) % 512 == want
        out += m
    return out


def verdict(stream):
    """Returns ('valid', data) if the byte string is a complete, valid sequence of gzip
    members (what gzip(1) accepts without complaint), else ('invalid', reason)."""
    out = b''
    rest = stream
    if not rest:
        return 'invalid', 'empty'
    while rest:
        d = zlib.decompressobj(31)
        try:
            out += d.decompress(rest)
            out += d.flush()
        except zlib.error as e:
            return 'invalid', str(e)
        if not d.eof:
            return 'invalid', 'incomplete'
        rest = d.unused_data
    return 'valid', out


def backref_pair(data, cut, level=6):
    """Two gzip members for data[:cut] and data[cut:], the second of which is NOT valid on its own: its deflate
    stream was produced with the tail of the first member's data as preset dictionary, so it contains matches that
    reach back before its own start (RFC 1951 forbids that; a decoder that keeps its window from one member to the
    next would not notice).  CRC-32 and ISIZE of the second member are those of data[cut:].  Returns the stream, or
    None when the compressor found nothing to reference in the dictionary (the stream would then be valid)."""
    a, b = data[:cut], data[cut:]
    if not a or not b:
        return None
    co = zlib.compressobj(level, zlib.DEFLATED, -15, 9, 0, a[-32768:])
    raw = co.compress(b) + co.flush()
    m2 = bytes([0x1F, 0x8B, 8, 0, 0, 0, 0, 0, 0, 3]) + raw + struct.pack('<II', zlib.crc32(b) & 0xFFFFFFFF, len(b) & 0xFFFFFFFF)
    stream = member(a, level=level) + m2
    if verdict(stream)[0] == 'valid':
        return None
    return stream
