"""Client for engine E1 (simkernel): plans in, results out, sandbox management."""

import hashlib
import json
import os
import shutil
import subprocess

from . import builds

BASE_ENV = ['PATH=/usr/bin:/bin', 'LANG=C', 'LC_ALL=C']

SAN_MARKERS = (b'ERROR: AddressSanitizer', b'runtime error:', b'ERROR: LeakSanitizer',
               b'AddressSanitizer:', b'WARNING: MemorySanitizer', b'UndefinedBehaviorSanitizer')


def pct(s):
    if isinstance(s, str):
        s = s.encode('utf-8', 'surrogateescape')
    out = []
    for b in s:
        if 0x21 <= b <= 0x7e and b != 0x25:
            out.append(chr(b))
        else:
            out.append('%%%02X' % b)
    return ''.join(out)


class Result(dict):
    """Result of one simulated run (JSON from simkernel + captured streams)."""

    @property
    def code(self):
        return self['exit'].get('code') if 'code' in self['exit'] and 'setup_fail' not in self['exit'] else None

    @property
    def signal(self):
        return self['exit'].get('signal')

    @property
    def timeout(self):
        return self['exit'].get('timeout')

    @property
    def huge_alloc(self):
        return self['exit'].get('huge_alloc')

    def exit_class(self):
        e = self['exit']
        if 'setup_fail' in e:
            return 'setup_fail'
        if 'code' in e:
            return 'exit%d' % e['code']
        if 'signal' in e:
            return 'signal%d' % e['signal']
        if 'timeout' in e:
            return 'timeout-' + e['timeout']
        if 'huge_alloc' in e:
            return 'huge_alloc'
        return 'unknown'

    def fired(self, i=None):
        if i is None:
            return sum(f['times'] for f in self['fired'])
        return self['fired'][i]['times']

    def accepted(self, target):
        a = self['accepted'].get(target)
        return a[0] if a else 0


def fault_line(f):
    op = f['op']
    t = pct(f['target'])
    if op in ('wfail', 'rfail'):
        return 'fault %s %s %s %d%s' % (op, t, f.get('errno', 'EIO'), f['at'], ' once' if f.get('once') else '')
    if op == 'wshort':
        return 'fault wshort %s %d %d' % (t, f['nth'], f['len'])
    if op == 'closefail':
        return 'fault closefail %s %s' % (t, f.get('errno', 'EIO'))
    if op == 'openfail':
        return 'fault openfail %s %s %d' % (t, f.get('errno', 'ENOENT'), f.get('nth', 0))
    if op == 'rchunk':
        return 'fault rchunk %s %d %d' % (t, f['seed'], f['max'])
    raise ValueError('unknown fault op %r' % (op,))


class Sandbox:
    """A directory on tmpfs holding the files of one case.  Layout:
       <root>/            cwd of the program; case files live here
       <root>/../io/      stdout/stderr capture files (outside root so the
                          program's own tree snapshot does not include them)"""

    def __init__(self, base):
        self.base = base
        self.root = os.path.join(base, 'root')
        self.io = os.path.join(base, 'io')
        os.makedirs(self.root, exist_ok=True)
        os.makedirs(self.io, exist_ok=True)

    def reset(self, files=None):
        """files: dict relpath -> bytes | None (directory) | ('symlink', target)"""
        for name in os.listdir(self.root):
            p = os.path.join(self.root, name)
            if os.path.isdir(p) and not os.path.islink(p):
                shutil.rmtree(p)
            else:
                os.unlink(p)
        if files:
            self.populate(files)

    def populate(self, files):
        for rel in files:
            v = files[rel]
            p = os.path.join(self.root, rel)
            if v is None:
                os.makedirs(p, exist_ok=True)
                continue
            os.makedirs(os.path.dirname(p), exist_ok=True)
            if isinstance(v, tuple) and v[0] == 'symlink':
                if os.path.lexists(p):
                    os.unlink(p)
                os.symlink(v[1], p)
            else:
                with open(p, 'wb') as f:
                    f.write(v)

    def remove(self, rel):
        p = os.path.join(self.root, rel)
        if os.path.isdir(p) and not os.path.islink(p):
            shutil.rmtree(p)
        elif os.path.lexists(p):
            os.unlink(p)

    def snapshot(self, sub=''):
        """dict relpath -> sha256 hex (files), 'dir', or 'link:<target>'; sorted keys."""
        out = {}
        top = os.path.join(self.root, sub) if sub else self.root
        for dirpath, dirnames, filenames in os.walk(top):
            dirnames.sort()
            for d in list(dirnames):
                p = os.path.join(dirpath, d)
                rel = os.path.relpath(p, self.root)
                if os.path.islink(p):
                    out[rel] = 'link:' + os.readlink(p)
                    dirnames.remove(d)
                else:
                    out[rel] = 'dir'
            for fn in sorted(filenames):
                p = os.path.join(dirpath, fn)
                rel = os.path.relpath(p, self.root)
                if os.path.islink(p):
                    out[rel] = 'link:' + os.readlink(p)
                else:
                    try:
                        with open(p, 'rb') as f:
                            out[rel] = hashlib.sha256(f.read()).hexdigest()
                    except OSError as e:
                        out[rel] = 'unreadable:%d' % e.errno      # e.g. a path longer than PATH_MAX
        return dict(sorted(out.items()))

    def read(self, rel):
        with open(os.path.join(self.root, rel), 'rb') as f:
            return f.read()

    def destroy(self):
        shutil.rmtree(self.base, ignore_errors=True)


class SimKernel:
    """Persistent simkernel process."""

    def __init__(self, exe=None):
        self.exe = exe or os.path.join(builds.BUILD, 'engines', 'simkernel')
        self.p = None
        self.runs = 0
        self.steps = 0

    def start(self):
        self.p = subprocess.Popen([self.exe], stdin=subprocess.PIPE, stdout=subprocess.PIPE)

    def stop(self):
        if self.p:
            try:
                self.p.stdin.write(b'quit\n')
                self.p.stdin.flush()
                self.p.stdin.close()
                self.p.wait(timeout=5)
            except Exception:
                self.p.kill()
            self.p = None

    def run(self, sb, exe, argv, *, env=None, stdin=None, stdin_pipe=False, stdout_kind='file',
            faults=(), aslr=0, wall_ms=10000, steps=200000, alloc_mb=256, as_mb=0,
            want_log=False, extra_fds=0, san=False, capture=True, cwd=None, untraced_stderr=None, deny_outside=True):
        """Run one plan.  argv includes argv[0].  stdin: relpath in sandbox or None."""
        if self.p is None or self.p.poll() is not None:
            self.start()
        envl = list(BASE_ENV)
        if san:
            envl += ['%s=%s' % kv for kv in builds.SAN_ENV.items()]
        if env:
            envl += list(env)
        out_path = os.path.join(sb.io, 'stdout')
        err_path = os.path.join(sb.io, 'stderr')
        lines = ['exe ' + pct(exe)]
        for a in argv:
            lines.append('arg ' + pct(a))
        for e in envl:
            lines.append('env ' + pct(e))
        lines.append('cwd ' + pct(cwd or sb.root))
        lines.append('root ' + pct(sb.root))
        if stdin is None:
            lines.append('stdin none')
        else:
            lines.append('stdin file %s%s' % (pct(os.path.join(sb.root, stdin)), ' pipe' if stdin_pipe else ''))
        lines.append('stdout %s %s' % (pct(out_path), stdout_kind))
        lines.append('stderr ' + pct(err_path))
        lines.append('aslr %d' % aslr)
        if want_log:
            lines.append('log 1')
        if extra_fds:
            lines.append('extra_fds %d' % extra_fds)
        if untraced_stderr is None:
            # --verbose on a flux image makes over a million unbuffered writes to stderr
            untraced_stderr = '--verbose' in argv
        if untraced_stderr:
            lines.append('untraced_stderr 1')
        if deny_outside:
            # the simulated file system ends at the sandbox's own directory: a mutating call beyond it is refused (and recorded)
            lines.append('deny_outside 1')
        lines.append('limit wall_ms %d' % wall_ms)
        lines.append('limit steps %d' % steps)
        lines.append('limit alloc_mb %d' % (0 if san else alloc_mb))
        if as_mb and not san:
            lines.append('limit as_mb %d' % as_mb)
        for f in faults:
            lines.append(fault_line(f))
        lines.append('end')
        self.p.stdin.write(('\n'.join(lines) + '\n').encode('ascii'))
        self.p.stdin.flush()
        line = self.p.stdout.readline()
        if not line:
            raise RuntimeError('simkernel died (exit %r)' % (self.p.poll(),))
        r = Result(json.loads(line))
        self.runs += 1
        self.steps += r['steps']
        if capture:
            with open(out_path, 'rb') as f:
                r['stdout'] = f.read()
            with open(err_path, 'rb') as f:
                r['stderr'] = f.read()
            r['sanitizer'] = bool(san) and (r['exit'].get('code') == 77 or any(m in r['stderr'] for m in SAN_MARKERS))
        return r


def available(exe=None):
    exe = exe or os.path.join(builds.BUILD, 'engines', 'simkernel')
    try:
        p = subprocess.run([exe, '--selftest'], stdout=subprocess.PIPE, stderr=subprocess.PIPE, timeout=20)
        return p.returncode == 0
    except Exception:
        return False
