// simdisk — E2: in-process simulated disc behind the repo's own storage seams.
//
// Links the library sources of /repo/dfs (everything except main.cc, cmd_*.cc,
// commands.cc) and serves operations over stdin/stdout:
//   request : u32 length, then "<command line>\n" + binary payload
//   response: u32 length, then "<json>\n" + binary blob
// A SimFileAccess implements DFS::FileAccess: it serves bytes from memory,
// applies the fault plan (physical EOF at byte k, FileIOError on the n-th read
// or on a read touching offset x) and records every (pos,len) asked for.
#include <fcntl.h>
#include <stdint.h>
#include <stdio.h>
#include <stdlib.h>
#include <string.h>
#include <unistd.h>

#include <exception>
#include <memory>
#include <optional>
#include <sstream>
#include <string>
#include <vector>

#include "abstractio.h"
#include "dfs.h"
#include "dfs_catalog.h"
#include "dfs_filesystem.h"
#include "dfs_volume.h"
#include "exceptions.h"
#include "geometry.h"
#include "img_sdf.h"
#include "media.h"
#include "storage.h"
#include "track.h"

namespace
{
struct ReadRec { unsigned long pos, len, got; };

struct FaultPlan
{
  long eof_at = -1;        // physical end of medium (bytes); -1 = none
  long ioerror_nth = -1;   // n-th read (1-based) throws FileIOError
  long ioerror_touch = -1; // a read covering this byte throws FileIOError
};

struct Shared
{
  std::vector<unsigned char> data;
  FaultPlan plan;
  std::vector<ReadRec> reads;
  long nreads = 0;
  long faults_fired = 0;
};

class SimFileAccess : public DFS::FileAccess
{
public:
  explicit SimFileAccess(std::shared_ptr<Shared> s) : s_(s) {}
  std::vector<DFS::byte> read(unsigned long pos, unsigned long len) override
  {
    ++s_->nreads;
    if (s_->plan.ioerror_nth > 0 && s_->nreads == s_->plan.ioerror_nth)
      {
	++s_->faults_fired;
	if (s_->reads.size() < 100000) s_->reads.push_back(ReadRec{pos, len, (unsigned long)-1});
	throw DFS::FileIOError("simdisk", 5 /* EIO */);
      }
    if (s_->plan.ioerror_touch >= 0 && pos <= (unsigned long)s_->plan.ioerror_touch
	&& (unsigned long)s_->plan.ioerror_touch < pos + len)
      {
	++s_->faults_fired;
	if (s_->reads.size() < 100000) s_->reads.push_back(ReadRec{pos, len, (unsigned long)-1});
	throw DFS::FileIOError("simdisk", 5);
      }
    unsigned long size = s_->data.size();
    if (s_->plan.eof_at >= 0 && (unsigned long)s_->plan.eof_at < size)
      size = (unsigned long)s_->plan.eof_at;
    std::vector<DFS::byte> out;
    if (pos < size)
      {
	unsigned long n = len;
	if (n > size - pos) { n = size - pos; if (s_->plan.eof_at >= 0) ++s_->faults_fired; }
	// refuse absurd requests the way a real allocation would be visible
	out.assign(s_->data.begin() + pos, s_->data.begin() + pos + n);
      }
    else if (s_->plan.eof_at >= 0 && pos < s_->data.size())
      ++s_->faults_fired;
    if (s_->reads.size() < 100000) s_->reads.push_back(ReadRec{pos, len, (unsigned long)out.size()});
    return out;
  }
private:
  std::shared_ptr<Shared> s_;
};

std::string jstr(const std::string& s)
{
  std::ostringstream o;
  o << '"';
  for (unsigned char c : s)
    {
      if (c == '"' || c == '\\') o << '\\' << c;
      else if (c < 0x20 || c >= 0x7f) { char b[8]; snprintf(b, sizeof b, "\\u%04x", c); o << b; }
      else o << c;
    }
  o << '"';
  return o.str();
}

bool read_exact(void *p, size_t n)
{
  unsigned char *q = static_cast<unsigned char*>(p);
  while (n)
    {
      ssize_t k = ::read(0, q, n);
      if (k <= 0) return false;
      q += k; n -= (size_t)k;
    }
  return true;
}

void write_all(const void *p, size_t n)
{
  const unsigned char *q = static_cast<const unsigned char*>(p);
  while (n)
    {
      ssize_t k = ::write(3, q, n);
      if (k <= 0) _exit(4);
      q += k; n -= (size_t)k;
    }
}

void respond(const std::string& json, const std::vector<unsigned char>& blob)
{
  uint32_t len = (uint32_t)(json.size() + 1 + blob.size());
  write_all(&len, 4);
  write_all(json.data(), json.size());
  write_all("\n", 1);
  if (!blob.empty()) write_all(blob.data(), blob.size());
}

// current state
std::shared_ptr<Shared> g_shared;
std::unique_ptr<DFS::AbstractImageFile> g_image;
std::unique_ptr<DFS::StorageConfiguration> g_storage;

void reset_state()
{
  // order matters: the storage refers to drives owned by the image file
  g_storage.reset();
  g_image.reset();
  g_shared.reset();
}

std::string reads_json(size_t from)
{
  std::ostringstream o;
  o << "[";
  bool first = true;
  size_t n = 0;
  for (size_t i = from; g_shared && i < g_shared->reads.size() && n < 4000; ++i, ++n)
    {
      const ReadRec& r = g_shared->reads[i];
      if (!first) o << ",";
      first = false;
      o << "[" << r.pos << "," << r.len << "," << (r.got == (unsigned long)-1 ? -1L : (long)r.got) << "]";
    }
  o << "]";
  return o.str();
}

template <typename F>
void guarded(F f, std::string& exc_kind, std::string& error)
{
  try { f(); }
  catch (std::exception& e) { exc_kind = "std"; error = e.what(); }
  catch (std::exception* e) { exc_kind = "pointer"; error = e->what(); }
  catch (...) { exc_kind = "other"; error = "non-standard exception"; }
}

void do_decode(std::istringstream& args, const std::vector<unsigned char>& payload)
{
  std::string enc; size_t first = 0, stride = 1;
  args >> enc >> first >> stride;
  std::vector<Track::byte> data(payload.begin(), payload.end());
  std::vector<Track::Sector> sectors;
  std::string exc, error;
  guarded([&]() {
    Track::BitStream bits(data, first, stride);
    sectors = (enc == "fm") ? Track::decode_fm_track(bits, false) : Track::decode_mfm_track(bits, false);
  }, exc, error);
  std::ostringstream o;
  std::vector<unsigned char> blob;
  o << "{\"exception\":" << (exc.empty() ? "null" : jstr(exc)) << ",\"error\":" << jstr(error) << ",\"sectors\":[";
  bool firstsec = true;
  for (const auto& s : sectors)
    {
      if (!firstsec) o << ",";
      firstsec = false;
      o << "{\"c\":" << unsigned(s.address.cylinder) << ",\"h\":" << unsigned(s.address.head) << ",\"r\":" << unsigned(s.address.record)
	<< ",\"size\":" << s.data.size() << ",\"crc\":[" << unsigned(s.crc[0]) << "," << unsigned(s.crc[1]) << "],\"off\":" << blob.size() << "}";
      blob.insert(blob.end(), s.data.begin(), s.data.end());
    }
  o << "]}";
  respond(o.str(), blob);
}

void do_open(std::istringstream& args, std::vector<unsigned char>& payload)
{
  std::string kind, name, policy;
  long eof_at, nth, touch;
  args >> kind >> name >> eof_at >> nth >> touch >> policy;
  reset_state();
  g_shared = std::make_shared<Shared>();
  g_shared->data.swap(payload);
  g_shared->plan.eof_at = eof_at;
  g_shared->plan.ioerror_nth = nth;
  g_shared->plan.ioerror_touch = touch;
  g_storage = std::make_unique<DFS::StorageConfiguration>();
  std::string exc, error;
  bool ok = false;
  guarded([&]() {
    std::unique_ptr<DFS::FileAccess> fa = std::make_unique<SimFileAccess>(g_shared);
    std::string err;
    if (kind == "hfe") g_image = DFS::make_hfe_file(name, false, std::move(fa), err);
    else if (kind == "mfm") g_image = DFS::make_hxcmfm_file(name, false, std::move(fa), err);
    else if (kind == "ssd" || kind == "sdd") g_image = DFS::make_noninterleaved_file(name, false, std::move(fa));
    else if (kind == "dsd" || kind == "ddd") g_image = DFS::make_interleaved_file(name, false, std::move(fa));
    else if (kind == "mmb") g_image = DFS::make_mmb_file(name, false, std::move(fa));
    else err = "unknown kind";
    if (!g_image) { error = err; return; }
    const auto how = policy == "first" ? DFS::DriveAllocation::FIRST : DFS::DriveAllocation::PHYSICAL;
    if (!g_image->connect_drives(g_storage.get(), how, err)) { error = err.empty() ? "connect_drives failed" : err; return; }
    ok = true;
  }, exc, error);
  std::ostringstream o;
  o << "{\"ok\":" << (ok ? "true" : "false") << ",\"exception\":" << (exc.empty() ? "null" : jstr(exc))
    << ",\"error\":" << jstr(error) << ",\"drives\":[";
  if (ok)
    {
      bool first = true;
      for (auto d : g_storage->get_all_occupied_drive_numbers())
	{
	  if (!first) o << ",";
	  first = false;
	  std::string e2, desc, fmtname;
	  DFS::AbstractDrive *p = 0;
	  bool sel = false;
	  std::optional<DFS::Format> fmt;
	  int c = 0, h = 0, s = 0; std::string enc = "?";
	  std::string x1, x2;
	  guarded([&]() {
	    sel = g_storage->select_drive(d, &p, e2);
	    fmt = g_storage->drive_format(d, e2);
	    if (sel && p)
	      {
		DFS::Geometry g = p->geometry();
		c = g.cylinders; h = g.heads; s = g.sectors;
		enc = g.encoding ? (*g.encoding == DFS::Encoding::FM ? "fm" : "mfm") : "?";
		desc = p->description();
	      }
	  }, x1, x2);
	  std::ostringstream dn; dn << d;
	  o << "{\"n\":" << dn.str() << ",\"selectable\":" << (sel ? "true" : "false")
	    << ",\"format\":" << (fmt ? jstr(DFS::format_name(*fmt)) : "null")
	    << ",\"geometry\":[" << c << "," << h << "," << s << ",\"" << enc << "\"],\"description\":" << jstr(desc) << "}";
	}
    }
  o << "],\"nreads\":" << g_shared->nreads << ",\"faults_fired\":" << g_shared->faults_fired << ",\"file_reads\":" << reads_json(0) << "}";
  respond(o.str(), {});
}

void do_readall(std::istringstream& args)
{
  unsigned int n; long limit = -1;
  args >> n >> limit;
  std::ostringstream o;
  std::vector<unsigned char> blob;
  if (!g_storage) { respond("{\"error\":\"no image open\"}", {}); return; }
  std::string error;
  DFS::AbstractDrive *p = 0;
  std::string exc, err2;
  bool sel = false;
  guarded([&]() { sel = g_storage->select_drive(DFS::SurfaceSelector(n), &p, error); }, exc, err2);
  if (!sel || !p)
    {
      o << "{\"error\":" << jstr(error + err2) << ",\"present\":\"\"}";
      respond(o.str(), {});
      return;
    }
  DFS::Geometry g = p->geometry();
  unsigned long total = (unsigned long)g.cylinders * g.sectors;
  if (limit >= 0) total = (unsigned long)limit;
  std::string present;
  size_t from = g_shared->reads.size();
  long fired_before = g_shared->faults_fired;
  for (unsigned long lba = 0; lba < total; ++lba)
    {
      std::optional<DFS::SectorBuffer> got;
      std::string e1, e2;
      guarded([&]() { got = p->read_block(lba); }, e1, e2);
      if (!e1.empty()) present.push_back('E');
      else if (got) { present.push_back('1'); blob.insert(blob.end(), got->begin(), got->end()); }
      else present.push_back('0');
    }
  o << "{\"error\":null,\"total\":" << total << ",\"present\":\"" << present << "\",\"faults_fired\":" << (g_shared->faults_fired - fired_before)
    << ",\"file_reads\":" << reads_json(from) << "}";
  respond(o.str(), blob);
}

void do_mount(std::istringstream& args, bool want_body)
{
  unsigned int n; std::string vol; int idx = -1;
  args >> n >> vol;
  if (want_body) args >> idx;
  if (!g_storage) { respond("{\"error\":\"no image open\"}", {}); return; }
  std::ostringstream o;
  std::vector<unsigned char> blob;
  std::string exc, error;
  bool ok = false;
  size_t from = g_shared->reads.size();
  long fired_before = g_shared->faults_fired;
  std::ostringstream ents;
  guarded([&]() {
    DFS::VolumeSelector vs = (vol == "-") ? DFS::VolumeSelector(DFS::SurfaceSelector(n)) : DFS::VolumeSelector(DFS::SurfaceSelector(n), vol[0]);
    std::string err;
    auto mounted = g_storage->mount(vs, err);
    if (!mounted) { error = err; return; }
    const DFS::Catalog& cat(mounted->volume()->root());
    auto entries = cat.entries();
    if (!want_body)
      {
	bool first = true;
	for (const auto& e : entries)
	  {
	    if (!first) ents << ",";
	    first = false;
	    ents << "{\"dir\":" << int(e.directory()) << ",\"name\":" << jstr(e.name()) << ",\"locked\":" << (e.is_locked() ? "true" : "false")
		 << ",\"load\":" << e.load_address() << ",\"exec\":" << e.exec_address() << ",\"length\":" << e.file_length()
		 << ",\"start\":" << e.start_sector() << "}";
	  }
	ok = true;
	return;
      }
    if (idx < 0 || (size_t)idx >= entries.size()) { error = "no such entry"; return; }
    const auto& e = entries[(size_t)idx];
    bool r = e.visit_file_body_piecewise(mounted->volume()->data_region(),
					 [&blob](const DFS::byte* b, const DFS::byte* en) { blob.insert(blob.end(), b, en); return true; });
    ok = r;
  }, exc, error);
  if (!ok) blob.clear();
  o << "{\"ok\":" << (ok ? "true" : "false") << ",\"exception\":" << (exc.empty() ? "null" : jstr(exc)) << ",\"error\":" << jstr(error)
    << ",\"entries\":[" << ents.str() << "],\"faults_fired\":" << (g_shared->faults_fired - fired_before)
    << ",\"file_reads\":" << reads_json(from) << "}";
  respond(o.str(), blob);
}

}  // namespace

int main()
{
  // fd 3 is the response channel: stdout/stderr chatter of the library code cannot corrupt it
  if (dup2(1, 3) < 0) return 3;
  int devnull = open("/dev/null", 1);
  (void)devnull;
  freopen("/dev/null", "w", stdout);
  for (;;)
    {
      uint32_t len;
      if (!read_exact(&len, 4)) break;
      std::vector<unsigned char> buf(len);
      if (len && !read_exact(buf.data(), len)) break;
      size_t nl = 0;
      while (nl < buf.size() && buf[nl] != '\n') ++nl;
      std::string line(buf.begin(), buf.begin() + nl);
      std::vector<unsigned char> payload;
      if (nl < buf.size()) payload.assign(buf.begin() + nl + 1, buf.end());
      std::istringstream args(line);
      std::string cmd;
      args >> cmd;
      if (cmd == "DECODE") do_decode(args, payload);
      else if (cmd == "OPEN") do_open(args, payload);
      else if (cmd == "READALL") do_readall(args);
      else if (cmd == "MOUNT") do_mount(args, false);
      else if (cmd == "BODY") do_mount(args, true);
      else if (cmd == "RESET") { reset_state(); respond("{\"ok\":true}", {}); }
      else if (cmd == "QUIT") break;
      else respond("{\"error\":\"unknown command\"}", {});
    }
  reset_state();
  return 0;
}

// The sanitizer's own options: make a report distinguishable from an ordinary exit.
extern "C" __attribute__((used)) const char *__asan_default_options()
{
  return "exitcode=77:detect_leaks=0:abort_on_error=0:max_allocation_size_mb=512";
}
extern "C" __attribute__((used)) const char *__ubsan_default_options()
{
  return "halt_on_error=1:exitcode=77";
}
