/*
 * simkernel — E1: a simulated kernel under the real beebtools binaries.
 *
 * Runs an unmodified program as a ptrace+seccomp(RET_TRACE) child and decides,
 * from a fault plan, the result of every system call through which the
 * environment can influence it.  One plan = one exactly repeatable execution.
 *
 * Protocol (persistent server): reads plans on stdin (line oriented, see
 * DESIGN.md A.2, terminated by a line "end"), writes one JSON object per plan on
 * stdout.  "quit" ends the server.
 *
 * No randomness, no clock reads influence the simulated execution; wall time is
 * measured for evidence and time-outs only.
 */
#define _GNU_SOURCE
#include <errno.h>
#include <fcntl.h>
#include <linux/audit.h>
#include <linux/filter.h>
#include <linux/seccomp.h>
#include <signal.h>
#include <stdarg.h>
#include <stddef.h>
#include <stdint.h>
#include <stdio.h>
#include <stdlib.h>
#include <string.h>
#include <sys/ioctl.h>
#include <sys/personality.h>
#include <sys/prctl.h>
#include <sys/ptrace.h>
#include <sys/resource.h>
#include <sys/stat.h>
#include <sys/syscall.h>
#include <sys/time.h>
#include <sys/types.h>
#include <sys/uio.h>
#include <sys/user.h>
#include <sys/wait.h>
#include <termios.h>
#include <time.h>
#include <unistd.h>

#ifndef O_TMPFILE
#define O_TMPFILE (020000000 | O_DIRECTORY)
#endif

/* ------------------------------------------------------------------ util */

static void die(const char *fmt, ...)
{
  va_list ap;
  va_start(ap, fmt);
  fprintf(stderr, "simkernel: ");
  vfprintf(stderr, fmt, ap);
  fprintf(stderr, "\n");
  va_end(ap);
  exit(3);
}

struct buf { char *p; size_t len, cap; };

static void buf_reserve(struct buf *b, size_t extra)
{
  if (b->len + extra + 1 > b->cap)
    {
      size_t n = b->cap ? b->cap * 2 : 256;
      while (n < b->len + extra + 1) n *= 2;
      b->p = realloc(b->p, n);
      if (!b->p) die("out of memory");
      b->cap = n;
    }
}
static void buf_add(struct buf *b, const char *s, size_t n)
{
  buf_reserve(b, n);
  memcpy(b->p + b->len, s, n);
  b->len += n;
  b->p[b->len] = 0;
}
static void buf_printf(struct buf *b, const char *fmt, ...)
{
  char tmp[4608];
  va_list ap;
  va_start(ap, fmt);
  int n = vsnprintf(tmp, sizeof tmp, fmt, ap);
  va_end(ap);
  if (n < 0) return;
  if ((size_t)n >= sizeof tmp) n = sizeof tmp - 1;
  buf_add(b, tmp, (size_t)n);
}
static void buf_json_str(struct buf *b, const char *s)
{
  buf_add(b, "\"", 1);
  for (; *s; ++s)
    {
      unsigned char c = (unsigned char)*s;
      if (c == '"' || c == '\\') { char t[2] = {'\\', (char)c}; buf_add(b, t, 2); }
      else if (c < 0x20 || c >= 0x7f) buf_printf(b, "\\u%04x", c);
      else buf_add(b, (const char*)&c, 1);
    }
  buf_add(b, "\"", 1);
}
static void buf_reset(struct buf *b) { b->len = 0; if (b->p) b->p[0] = 0; }

static uint64_t fnv1a(uint64_t h, const char *s, size_t n)
{
  for (size_t i = 0; i < n; ++i) { h ^= (unsigned char)s[i]; h *= 1099511628211ULL; }
  return h;
}

static int pct_decode(const char *in, char *out, size_t outsz)
{
  size_t o = 0;
  for (; *in; ++in)
    {
      if (o + 1 >= outsz) return -1;
      if (*in == '%' && in[1] && in[2])
	{
	  char h[3] = { in[1], in[2], 0 };
	  out[o++] = (char)strtol(h, NULL, 16);
	  in += 2;
	}
      else out[o++] = *in;
    }
  out[o] = 0;
  return (int)o;
}

/* ------------------------------------------------------------------ plan */

enum fop { F_WFAIL, F_WSHORT, F_CLOSEFAIL, F_OPENFAIL, F_RFAIL, F_RCHUNK };

struct fault
{
  enum fop op;
  char target[512];
  int err;
  long at;          /* byte offset (wfail/rfail) */
  long nth;         /* wshort: which write; openfail: which open (0=all) */
  long len;         /* wshort: accepted length; rchunk: max */
  int once;
  uint64_t lcg;     /* rchunk state */
  /* dynamic */
  long accepted;    /* bytes accepted on matching fds */
  long count;       /* ops seen on matching fds */
  int tripped, done;
  long fired;
  long first_at;
};

#define MAXF 32
#define MAXARGS 4096
#define MAXENV 256

struct plan
{
  char exe[4096];
  char *argv[MAXARGS + 1]; int argc;
  char *envp[MAXENV + 1]; int envc;
  char cwd[4096];
  char root[4096];
  char stdin_path[4096]; int stdin_pipe; int stdin_none;
  char stdout_path[4096]; int stdout_kind; /* 0 file 1 pipe 2 tty */
  char stderr_path[4096];
  int aslr;
  long wall_ms, steps, alloc_mb, as_mb;
  int want_log;
  int extra_fds;
  int untraced_stderr;   /* write(2, ...) is not trapped (verbose runs make millions of them) */
  int deny_outside;      /* mutating calls on paths outside the sandbox's own directory fail with EACCES (and are recorded) */
  struct fault faults[MAXF]; int nfaults;
};

static int parse_errno(const char *s)
{
  static const struct { const char *n; int v; } tab[] = {
    {"ENOSPC", ENOSPC}, {"EIO", EIO}, {"EDQUOT", EDQUOT}, {"EFBIG", EFBIG},
    {"EPIPE", EPIPE}, {"EAGAIN", EAGAIN}, {"ENOENT", ENOENT}, {"EACCES", EACCES},
    {"EMFILE", EMFILE}, {"ENFILE", ENFILE}, {"EISDIR", EISDIR}, {"ENOMEM", ENOMEM},
    {"EROFS", EROFS}, {"EPERM", EPERM}, {"EINTR", EINTR}, {"EBADF", EBADF},
    {"ENOTDIR", ENOTDIR}, {"ELOOP", ELOOP}, {"ENAMETOOLONG", ENAMETOOLONG},
    {"EEXIST", EEXIST}, {"ENXIO", ENXIO}, {"EOVERFLOW", EOVERFLOW},
  };
  for (size_t i = 0; i < sizeof tab / sizeof tab[0]; ++i)
    if (!strcmp(tab[i].n, s)) return tab[i].v;
  return atoi(s) > 0 ? atoi(s) : EIO;
}

static void plan_free(struct plan *p)
{
  for (int i = 0; i < p->argc; ++i) free(p->argv[i]);
  for (int i = 0; i < p->envc; ++i) free(p->envp[i]);
}

/* returns 1 plan read, 0 EOF/quit */
static int plan_read(struct plan *p, FILE *in)
{
  static char line[1 << 20], dec[1 << 20];
  memset(p, 0, sizeof *p);
  p->wall_ms = 10000; p->steps = 200000; p->alloc_mb = 256; p->as_mb = 0;
  p->stdin_none = 1;
  int got = 0;
  while (fgets(line, sizeof line, in))
    {
      size_t n = strlen(line);
      while (n && (line[n-1] == '\n' || line[n-1] == '\r')) line[--n] = 0;
      if (!n) continue;
      got = 1;
      if (!strcmp(line, "quit")) return 0;
      if (!strcmp(line, "end")) return 1;
      char *sp = strchr(line, ' ');
      char *rest = sp ? sp + 1 : line + n;
      if (sp) *sp = 0;
      if (!strcmp(line, "exe")) { pct_decode(rest, p->exe, sizeof p->exe); }
      else if (!strcmp(line, "arg"))
	{
	  if (p->argc >= MAXARGS) die("too many args");
	  pct_decode(rest, dec, sizeof dec);
	  p->argv[p->argc++] = strdup(dec);
	}
      else if (!strcmp(line, "env"))
	{
	  if (p->envc >= MAXENV) die("too many env");
	  pct_decode(rest, dec, sizeof dec);
	  p->envp[p->envc++] = strdup(dec);
	}
      else if (!strcmp(line, "cwd")) pct_decode(rest, p->cwd, sizeof p->cwd);
      else if (!strcmp(line, "root")) pct_decode(rest, p->root, sizeof p->root);
      else if (!strcmp(line, "stdin"))
	{
	  if (!strncmp(rest, "none", 4)) p->stdin_none = 1;
	  else
	    {
	      char kind[16], path[4096]; char extra[16] = "";
	      int k = sscanf(rest, "%15s %4095s %15s", kind, path, extra);
	      if (k < 2) die("bad stdin line");
	      p->stdin_none = 0;
	      pct_decode(path, p->stdin_path, sizeof p->stdin_path);
	      p->stdin_pipe = !strcmp(extra, "pipe");
	    }
	}
      else if (!strcmp(line, "stdout"))
	{
	  char path[4096], kind[16] = "file";
	  if (sscanf(rest, "%4095s %15s", path, kind) < 1) die("bad stdout line");
	  pct_decode(path, p->stdout_path, sizeof p->stdout_path);
	  p->stdout_kind = !strcmp(kind, "pipe") ? 1 : !strcmp(kind, "tty") ? 2 : 0;
	}
      else if (!strcmp(line, "stderr")) pct_decode(rest, p->stderr_path, sizeof p->stderr_path);
      else if (!strcmp(line, "aslr")) p->aslr = atoi(rest);
      else if (!strcmp(line, "log")) p->want_log = atoi(rest);
      else if (!strcmp(line, "extra_fds")) p->extra_fds = atoi(rest);
      else if (!strcmp(line, "untraced_stderr")) p->untraced_stderr = atoi(rest);
      else if (!strcmp(line, "deny_outside")) p->deny_outside = atoi(rest);
      else if (!strcmp(line, "limit"))
	{
	  char what[32]; long v;
	  if (sscanf(rest, "%31s %ld", what, &v) != 2) die("bad limit");
	  if (!strcmp(what, "wall_ms")) p->wall_ms = v;
	  else if (!strcmp(what, "steps")) p->steps = v;
	  else if (!strcmp(what, "alloc_mb")) p->alloc_mb = v;
	  else if (!strcmp(what, "as_mb")) p->as_mb = v;
	}
      else if (!strcmp(line, "fault"))
	{
	  if (p->nfaults >= MAXF) die("too many faults");
	  struct fault *f = &p->faults[p->nfaults++];
	  char op[32], tgt[1024], a[64] = "", b[64] = "", c[64] = "";
	  int k = sscanf(rest, "%31s %1023s %63s %63s %63s", op, tgt, a, b, c);
	  if (k < 2) die("bad fault line: %s", rest);
	  pct_decode(tgt, f->target, sizeof f->target);
	  f->first_at = -1;
	  if (!strcmp(op, "wfail"))
	    { f->op = F_WFAIL; f->err = parse_errno(a); f->at = atol(b); f->once = !strcmp(c, "once"); }
	  else if (!strcmp(op, "rfail"))
	    { f->op = F_RFAIL; f->err = parse_errno(a); f->at = atol(b); f->once = !strcmp(c, "once"); }
	  else if (!strcmp(op, "wshort")) { f->op = F_WSHORT; f->nth = atol(a); f->len = atol(b); }
	  else if (!strcmp(op, "closefail")) { f->op = F_CLOSEFAIL; f->err = parse_errno(a); }
	  else if (!strcmp(op, "openfail")) { f->op = F_OPENFAIL; f->err = parse_errno(a); f->nth = atol(b); }
	  else if (!strcmp(op, "rchunk"))
	    { f->op = F_RCHUNK; f->lcg = strtoull(a, NULL, 10); f->len = atol(b); if (f->len < 1) f->len = 1; }
	  else die("unknown fault op %s", op);
	}
      else die("unknown plan line: %s", line);
    }
  if (got) die("plan truncated");
  return 0;
}

/* --------------------------------------------------------------- fd table */

enum fkind { K_NONE = 0, K_STDIN, K_STDOUT, K_STDERR, K_SANDBOX, K_SYS, K_TMPFILE };

struct fdent
{
  enum fkind kind;
  char path[1024];   /* relative to root for sandbox; absolute otherwise */
  int writable, readable;
  int created_ord;   /* >=0 if opened for writing in sandbox */
  long off;          /* tracked file offset */
  int append;
};

#define MAXFD 4096
static struct fdent fds[MAXFD];
static int next_created;

struct range { long a, b; };
struct readrec { char path[1024]; long calls, bytes; struct range r[128]; int nr; };
#define MAXRR 32
static struct readrec rr[MAXRR]; static int nrr;

static void record_read(const char *path, long off, long n)
{
  struct readrec *q = NULL;
  for (int i = 0; i < nrr; ++i) if (!strcmp(rr[i].path, path)) { q = &rr[i]; break; }
  if (!q)
    {
      if (nrr >= MAXRR) return;
      q = &rr[nrr++]; memset(q, 0, sizeof *q);
      snprintf(q->path, sizeof q->path, "%s", path);
    }
  q->calls++;
  if (n <= 0) return;
  q->bytes += n;
  /* insert/merge [off, off+n) */
  long a = off, b = off + n;
  for (int i = 0; i < q->nr; ++i)
    if (a <= q->r[i].b && b >= q->r[i].a)
      {
	if (q->r[i].a < a) a = q->r[i].a;
	if (q->r[i].b > b) b = q->r[i].b;
	q->r[i] = q->r[--q->nr];
	i = -1;
      }
  if (q->nr < 128) { q->r[q->nr].a = a; q->r[q->nr].b = b; q->nr++; }
}

struct mutation { char op[16]; char path[1024]; char flags[64]; long res; };
#define MAXMUT 512
static struct mutation muts[MAXMUT]; static int nmut;

/* written bytes per target name for "accepted" accounting */
struct acc { char name[1024]; long bytes; long calls; };
#define MAXACC 128
static struct acc accs[MAXACC]; static int nacc;
static struct acc *acc_get(const char *name)
{
  for (int i = 0; i < nacc; ++i) if (!strcmp(accs[i].name, name)) return &accs[i];
  if (nacc >= MAXACC) return &accs[MAXACC - 1];
  struct acc *a = &accs[nacc++]; memset(a, 0, sizeof *a);
  snprintf(a->name, sizeof a->name, "%s", name);
  return a;
}

/* ----------------------------------------------------------- run state */

static struct plan P;
static uint64_t rnd_calls;   /* bytes handed out by the simulated getrandom() in this run */
static uint64_t clk_calls;   /* readings of the simulated clock in this run: it advances 1 ms per reading */
#define SIM_EPOCH 1700000000L
static struct buf logb, out;
static uint64_t log_hash;
static long seq, steps;
static long max_alloc;
static int huge_alloc;
static long brk_base, brk_cur;
static volatile sig_atomic_t alarm_fired;
static long unexpected;

static void on_alarm(int s) { (void)s; alarm_fired = 1; }

static void logev(const char *fmt, ...)
{
  char tmp[2304];
  va_list ap;
  va_start(ap, fmt);
  int n = vsnprintf(tmp, sizeof tmp - 1, fmt, ap);
  va_end(ap);
  if (n < 0) return;
  if ((size_t)n >= sizeof tmp - 1) n = sizeof tmp - 2;
  tmp[n++] = '\n'; tmp[n] = 0;
  char hdr[32];
  int h = snprintf(hdr, sizeof hdr, "%ld ", seq++);
  log_hash = fnv1a(log_hash, hdr, (size_t)h);
  log_hash = fnv1a(log_hash, tmp, (size_t)n);
  if (P.want_log && logb.len < (4u << 20)) { buf_add(&logb, hdr, (size_t)h); buf_add(&logb, tmp, (size_t)n); }
}

static int read_mem(pid_t pid, unsigned long addr, void *dst, size_t n)
{
  struct iovec l = { dst, n }, r = { (void*)addr, n };
  ssize_t k = process_vm_readv(pid, &l, 1, &r, 1, 0);
  return k == (ssize_t)n ? 0 : -1;
}
static int write_mem(pid_t pid, unsigned long addr, const void *src, size_t n)
{
  struct iovec l = { (void*)src, n }, r = { (void*)addr, n };
  ssize_t k = process_vm_writev(pid, &l, 1, &r, 1, 0);
  return k == (ssize_t)n ? 0 : -1;
}
static int read_str(pid_t pid, unsigned long addr, char *dst, size_t cap)
{
  size_t o = 0;
  while (o + 1 < cap)
    {
      size_t chunk = 256 - (addr + o) % 256;
      if (chunk > cap - 1 - o) chunk = cap - 1 - o;
      if (read_mem(pid, addr + o, dst + o, chunk) != 0)
	{
	  /* fall back to bytewise */
	  if (read_mem(pid, addr + o, dst + o, 1) != 0) { dst[o] = 0; return -1; }
	  chunk = 1;
	}
      for (size_t i = 0; i < chunk; ++i) if (!dst[o + i]) return 0;
      o += chunk;
    }
  dst[o] = 0;
  return 0;
}

/* lexical normalisation of an absolute path */
static void normalise(char *path)
{
  char outp[4096]; size_t o = 0;
  const char *s = path;
  outp[0] = 0;
  while (*s)
    {
      while (*s == '/') ++s;
      if (!*s) break;
      const char *e = strchr(s, '/');
      size_t n = e ? (size_t)(e - s) : strlen(s);
      if (n == 1 && s[0] == '.') { }
      else if (n == 2 && s[0] == '.' && s[1] == '.')
	{
	  while (o > 0 && outp[o-1] != '/') --o;
	  if (o > 0) --o;
	}
      else
	{
	  if (o + n + 2 >= sizeof outp) break;
	  outp[o++] = '/';
	  memcpy(outp + o, s, n); o += n;
	}
      s += n;
    }
  if (o == 0) outp[o++] = '/';
  outp[o] = 0;
  strcpy(path, outp);
}

/* Resolve a path argument the way the tracee would: relative to cwd (or the
 * directory fd), then canonicalise the parent directory with realpath() so that
 * symlinks and ".." are resolved as the kernel would, keeping the last
 * component. */
static void resolve_path(int dirfd, const char *arg, char *outp, size_t cap)
{
  char tmp[4096];
  if (arg[0] == '/') snprintf(tmp, sizeof tmp, "%s", arg);
  else if (dirfd >= 0 && dirfd < MAXFD && fds[dirfd].kind != K_NONE)
    {
      if (fds[dirfd].kind == K_SANDBOX) snprintf(tmp, sizeof tmp, "%s/%s/%s", P.root, fds[dirfd].path, arg);
      else snprintf(tmp, sizeof tmp, "%s/%s", fds[dirfd].path, arg);
    }
  else snprintf(tmp, sizeof tmp, "%s/%s", P.cwd, arg);
  /* split parent / last */
  size_t n = strlen(tmp);
  while (n > 1 && tmp[n-1] == '/') tmp[--n] = 0;
  char *slash = strrchr(tmp, '/');
  char parent[4096], last[1024];
  if (!slash) { snprintf(outp, cap, "%s", tmp); return; }
  snprintf(last, sizeof last, "%s", slash + 1);
  if (slash == tmp) strcpy(parent, "/"); else { *slash = 0; snprintf(parent, sizeof parent, "%s", tmp); }
  char rp[4096];
  if (!strcmp(last, "..") || !strcmp(last, "."))
    {
      char whole[4096];
      snprintf(whole, sizeof whole, "%s/%s", parent, last);
      if (realpath(whole, rp)) { snprintf(outp, cap, "%s", rp); return; }
      normalise(whole); snprintf(outp, cap, "%s", whole); return;
    }
  if (realpath(parent, rp)) snprintf(tmp, sizeof tmp, "%s/%s", strcmp(rp, "/") ? rp : "", last);
  else { char whole[4096]; snprintf(whole, sizeof whole, "%s/%s", parent, last); normalise(whole); snprintf(tmp, sizeof tmp, "%s", whole); }
  /* if last component itself is a symlink, the open follows it */
  snprintf(outp, cap, "%s", tmp);
}

static int in_root(const char *abs, const char **rel)
{
  size_t n = strlen(P.root);
  if (n && !strncmp(abs, P.root, n) && (abs[n] == '/' || abs[n] == 0))
    {
      *rel = abs[n] ? abs + n + 1 : "";
      return 1;
    }
  return 0;
}

/* A path outside the sandbox root but beside it (reached with "..") is shown
 * relative to the root's parent so that logs do not depend on where the
 * sandbox happens to live. */
static const char *display_outside(const char *abs, char *tmp, size_t cap)
{
  char parent[4096];
  snprintf(parent, sizeof parent, "%s", P.root);
  char *slash = strrchr(parent, '/');
  if (slash && slash != parent)
    {
      *slash = 0;
      size_t n = strlen(parent);
      if (!strncmp(abs, parent, n) && (abs[n] == '/' || abs[n] == 0))
	{
	  snprintf(tmp, cap, "<..>%s", abs + n);
	  return tmp;
	}
    }
  return abs;
}

static int is_tmpf_path(const char *abs)
{
  return !strncmp(abs, "/tmp/tmpf", 9) && strlen(abs) == 15;
}

/* Is this path outside the directory that holds the sandbox (root and what lies beside it)?  Such a path belongs
   to the machine the simulation runs on; with deny_outside a mutating call on it is refused, not performed. */
static int beyond_sandbox(const char *abs)
{
  char tmp[4200];
  const char *rel;
  if (in_root(abs, &rel) || is_tmpf_path(abs)) return 0;
  return display_outside(abs, tmp, sizeof tmp) == abs;
}

static void target_name(const struct fdent *e, char *outp, size_t cap)
{
  switch (e->kind)
    {
    case K_STDIN: snprintf(outp, cap, "stdin"); break;
    case K_STDOUT: snprintf(outp, cap, "stdout"); break;
    case K_STDERR: snprintf(outp, cap, "stderr"); break;
    case K_TMPFILE: snprintf(outp, cap, "tmpfile"); break;
    case K_SANDBOX:
      if (e->created_ord >= 0) snprintf(outp, cap, "created:%d", e->created_ord);
      else snprintf(outp, cap, "in:%s", e->path);
      break;
    case K_SYS: snprintf(outp, cap, "sys:%s", e->path); break;
    default: snprintf(outp, cap, "?"); break;
    }
}

static int fault_matches(const struct fault *f, const struct fdent *e)
{
  const char *t = f->target;
  switch (e->kind)
    {
    case K_STDIN: return !strcmp(t, "stdin");
    case K_STDOUT: return !strcmp(t, "stdout");
    case K_STDERR: return !strcmp(t, "stderr");
    case K_TMPFILE: return !strcmp(t, "tmpfile");
    case K_SANDBOX:
      if (!strncmp(t, "in:", 3)) return e->created_ord < 0 && !strcmp(t + 3, e->path);
      if (!strncmp(t, "path:", 5)) return !strcmp(t + 5, e->path);
      if (!strncmp(t, "created:", 8))
	return e->created_ord >= 0 && (!strcmp(t + 8, "*") || atoi(t + 8) == e->created_ord);
      return 0;
    default: return 0;
    }
}

static void flags_str(long fl, char *outp, size_t cap)
{
  outp[0] = 0;
  const char *acc = (fl & O_ACCMODE) == O_RDONLY ? "O_RDONLY" : (fl & O_ACCMODE) == O_WRONLY ? "O_WRONLY" : "O_RDWR";
  snprintf(outp, cap, "%s%s%s%s%s%s", acc,
	   (fl & O_CREAT) ? "|O_CREAT" : "", (fl & O_TRUNC) ? "|O_TRUNC" : "",
	   (fl & O_EXCL) ? "|O_EXCL" : "", (fl & O_APPEND) ? "|O_APPEND" : "",
	   ((fl & O_TMPFILE) == O_TMPFILE) ? "|O_TMPFILE" : "");
}

static void add_mutation(const char *op, const char *path, const char *flags, long res)
{
  if (nmut >= MAXMUT) return;
  struct mutation *m = &muts[nmut++];
  snprintf(m->op, sizeof m->op, "%s", op);
  snprintf(m->path, sizeof m->path, "%s", path);
  snprintf(m->flags, sizeof m->flags, "%s", flags);
  m->res = res;
}

/* ------------------------------------------------------ seccomp filter */

static const int traced[] = {
  SYS_open, SYS_openat, SYS_creat,
#ifdef SYS_openat2
  SYS_openat2,
#endif
  SYS_read, SYS_pread64, SYS_readv, SYS_write, SYS_pwrite64, SYS_writev,
  SYS_lseek, SYS_close, SYS_fstat, SYS_newfstatat, SYS_ioctl,
  SYS_unlink, SYS_unlinkat, SYS_rename, SYS_renameat, SYS_renameat2,
  SYS_mkdir, SYS_mkdirat, SYS_rmdir, SYS_link, SYS_linkat, SYS_symlink, SYS_symlinkat,
  SYS_truncate, SYS_ftruncate, SYS_chmod, SYS_fchmod, SYS_fchmodat,
  SYS_chown, SYS_fchown, SYS_lchown, SYS_fchownat, SYS_utimensat, SYS_mknod, SYS_mknodat,
  SYS_mmap, SYS_brk, SYS_mremap, SYS_dup, SYS_dup2, SYS_dup3, SYS_fcntl,
  SYS_fork, SYS_vfork, SYS_clone, SYS_socket, SYS_chdir, SYS_fchdir,
  SYS_sendfile, SYS_copy_file_range, SYS_fallocate, SYS_pwritev, SYS_preadv,
  SYS_getrandom, SYS_clock_gettime, SYS_gettimeofday, SYS_time,
#ifdef SYS_clone3
  SYS_clone3,
#endif
};
#define NTRACED (sizeof traced / sizeof traced[0])

static void install_filter(void)
{
  struct sock_filter prog[NTRACED + 16];
  size_t n = 0;
  /* arch check */
  prog[n++] = (struct sock_filter)BPF_STMT(BPF_LD | BPF_W | BPF_ABS, offsetof(struct seccomp_data, arch));
  prog[n++] = (struct sock_filter)BPF_JUMP(BPF_JMP | BPF_JEQ | BPF_K, AUDIT_ARCH_X86_64, 1, 0);
  prog[n++] = (struct sock_filter)BPF_STMT(BPF_RET | BPF_K, SECCOMP_RET_KILL_PROCESS);
  prog[n++] = (struct sock_filter)BPF_STMT(BPF_LD | BPF_W | BPF_ABS, offsetof(struct seccomp_data, nr));
  if (P.untraced_stderr)
    {
      /* if (nr == write && (u32)args[0] == 2) allow; */
      prog[n++] = (struct sock_filter)BPF_JUMP(BPF_JMP | BPF_JEQ | BPF_K, SYS_write, 0, 3);
      prog[n++] = (struct sock_filter)BPF_STMT(BPF_LD | BPF_W | BPF_ABS, offsetof(struct seccomp_data, args[0]));
      prog[n++] = (struct sock_filter)BPF_JUMP(BPF_JMP | BPF_JEQ | BPF_K, 2, 0, 1);
      prog[n++] = (struct sock_filter)BPF_STMT(BPF_RET | BPF_K, SECCOMP_RET_ALLOW);
      prog[n++] = (struct sock_filter)BPF_STMT(BPF_LD | BPF_W | BPF_ABS, offsetof(struct seccomp_data, nr));
    }
  for (size_t i = 0; i < NTRACED; ++i)
    prog[n++] = (struct sock_filter)BPF_JUMP(BPF_JMP | BPF_JEQ | BPF_K, (unsigned)traced[i], (unsigned char)(NTRACED - i), 0);
  prog[n++] = (struct sock_filter)BPF_STMT(BPF_RET | BPF_K, SECCOMP_RET_ALLOW);
  prog[n++] = (struct sock_filter)BPF_STMT(BPF_RET | BPF_K, SECCOMP_RET_TRACE);
  struct sock_fprog fp = { (unsigned short)n, prog };
  if (prctl(PR_SET_NO_NEW_PRIVS, 1, 0, 0, 0)) _exit(126);
  if (prctl(PR_SET_SECCOMP, SECCOMP_MODE_FILTER, &fp)) _exit(126);
}

/* -------------------------------------------------------- child set-up */

static void child_main(void)
{
  /* new descriptors */
  int fd0 = P.stdin_none ? open("/dev/null", O_RDONLY) : open(P.stdin_path, O_RDONLY);
  int fd1 = open(P.stdout_path, O_WRONLY | O_CREAT | O_TRUNC, 0644);
  int fd2 = open(P.stderr_path, O_WRONLY | O_CREAT | O_TRUNC | O_APPEND, 0644);
  if (fd0 < 0 || fd1 < 0 || fd2 < 0) _exit(125);
  dup2(fd0, 0); dup2(fd1, 1); dup2(fd2, 2);
  for (int i = 3; i < 256; ++i) close(i);
  for (int i = 0; i < P.extra_fds; ++i) { int r = open("/dev/null", O_RDONLY); (void)r; }
  if (chdir(P.cwd)) _exit(124);
  umask(022);
  if (!P.aslr) personality(ADDR_NO_RANDOMIZE);
  if (P.as_mb > 0)
    {
      struct rlimit rl = { (rlim_t)P.as_mb << 20, (rlim_t)P.as_mb << 20 };
      setrlimit(RLIMIT_AS, &rl);
    }
  struct rlimit core = { 0, 0 };
  setrlimit(RLIMIT_CORE, &core);
  signal(SIGPIPE, SIG_DFL);
  if (ptrace(PTRACE_TRACEME, 0, 0, 0)) _exit(123);
  raise(SIGSTOP);
  install_filter();
  execve(P.exe, P.argv, P.envp);
  _exit(127);
}

/* ----------------------------------------------------- syscall handling */

struct sysctx
{
  struct user_regs_struct entry;   /* registers at entry */
  int skip;            /* syscall suppressed */
  long forced;         /* forced result if skip or override */
  int override;        /* override result at exit */
  int restore_args;    /* restore rdx etc at exit */
  int restore_iov; unsigned long iov_addr; struct iovec iov_saved[16]; int iov_cnt;
  int injected;
  char path[4096];     /* resolved path for path calls */
  long open_flags;
  int fd;
  long want;           /* requested byte count */
  struct fault *wf[MAXF]; int nwf;   /* wfail faults being accounted */
};

static long iov_total(pid_t pid, unsigned long addr, int cnt, struct iovec *v)
{
  if (cnt < 0) cnt = 0;
  if (cnt > 16) cnt = 16;
  if (read_mem(pid, addr, v, sizeof(struct iovec) * (size_t)cnt)) return -1;
  long t = 0;
  for (int i = 0; i < cnt; ++i) t += (long)v[i].iov_len;
  return t;
}

static void fire(struct fault *f, long at)
{
  f->fired++;
  if (f->first_at < 0) f->first_at = at;
}

static void do_skip(pid_t pid, struct sysctx *c, long result)
{
  struct user_regs_struct r = c->entry;
  r.orig_rax = (unsigned long long)-1;
  ptrace(PTRACE_SETREGS, pid, 0, &r);
  c->skip = 1; c->forced = result; c->injected = 1;
}

/* shorten a write/read to n bytes (n>0) */
static void do_shorten(pid_t pid, struct sysctx *c, long nr, long n)
{
  if (nr == SYS_write || nr == SYS_read || nr == SYS_pread64 || nr == SYS_pwrite64)
    {
      struct user_regs_struct r = c->entry;
      r.rdx = (unsigned long long)n;
      ptrace(PTRACE_SETREGS, pid, 0, &r);
      c->restore_args = 1;
    }
  else if (nr == SYS_writev || nr == SYS_readv)
    {
      struct iovec v[16];
      int cnt = c->iov_cnt;
      memcpy(v, c->iov_saved, sizeof(struct iovec) * (size_t)cnt);
      long left = n; int k = 0;
      for (; k < cnt; ++k)
	{
	  if ((long)v[k].iov_len >= left) { v[k].iov_len = (size_t)left; left = 0; ++k; break; }
	  left -= (long)v[k].iov_len;
	}
      for (int j = k; j < cnt; ++j) v[j].iov_len = 0;
      write_mem(pid, c->iov_addr, v, sizeof(struct iovec) * (size_t)cnt);
      c->restore_iov = 1;
    }
  c->injected = 1;
}

static void handle_entry(pid_t pid, struct sysctx *c)
{
  struct user_regs_struct *r = &c->entry;
  long nr = (long)r->orig_rax;
  memset(&c->skip, 0, sizeof *c - offsetof(struct sysctx, skip));
  c->fd = -1;

  switch (nr)
    {
    case SYS_open: case SYS_openat: case SYS_creat:
#ifdef SYS_openat2
    case SYS_openat2:
#endif
      {
	char arg[4096];
	int dirfd = AT_FDCWD; unsigned long paddr; long fl;
	if (nr == SYS_open) { paddr = r->rdi; fl = (long)r->rsi; }
	else if (nr == SYS_creat) { paddr = r->rdi; fl = O_CREAT | O_WRONLY | O_TRUNC; }
	else if (nr == SYS_openat) { dirfd = (int)r->rdi; paddr = r->rsi; fl = (long)r->rdx; }
	else { dirfd = (int)r->rdi; paddr = r->rsi; uint64_t how[3] = {0,0,0}; read_mem(pid, r->rdx, how, sizeof how); fl = (long)how[0]; }
	if (read_str(pid, paddr, arg, sizeof arg)) arg[0] = 0;
	resolve_path(dirfd == AT_FDCWD ? -1 : dirfd, arg, c->path, sizeof c->path);
	c->open_flags = fl;
	const char *rel;
	int tmpf = ((fl & O_TMPFILE) == O_TMPFILE) || is_tmpf_path(c->path);
	int sandbox = in_root(c->path, &rel);
	if (P.deny_outside && !tmpf && (fl & (O_CREAT | O_TRUNC | O_WRONLY | O_RDWR)) && beyond_sandbox(c->path)
	    && strncmp(c->path, "/dev/", 5) && strncmp(c->path, "/proc/", 6))
	  {
	    do_skip(pid, c, -EACCES);
	    c->injected = 0;
	    break;
	  }
	if (tmpf || sandbox)
	  for (int i = 0; i < P.nfaults; ++i)
	    {
	      struct fault *f = &P.faults[i];
	      if (f->op != F_OPENFAIL) continue;
	      int m = tmpf ? !strcmp(f->target, "tmpfile") : !strcmp(f->target, rel);
	      if (!m) continue;
	      f->count++;
	      if (f->nth && f->count != f->nth) continue;
	      fire(f, f->count);
	      do_skip(pid, c, -f->err);
	      break;
	    }
	break;
      }
    case SYS_unlink: case SYS_rmdir: case SYS_mkdir: case SYS_truncate: case SYS_chmod: case SYS_chown: case SYS_lchown:
    case SYS_mknod: case SYS_rename: case SYS_link: case SYS_symlink:
    case SYS_unlinkat: case SYS_mkdirat: case SYS_fchmodat: case SYS_fchownat: case SYS_mknodat:
    case SYS_renameat: case SYS_renameat2: case SYS_linkat: case SYS_symlinkat: case SYS_utimensat:
      {
	if (!P.deny_outside) break;
	/* (dirfd, path address) pairs this call would change */
	int dfd[2] = { AT_FDCWD, AT_FDCWD }; unsigned long pa[2] = { 0, 0 }; int np = 1;
	switch (nr)
	  {
	  case SYS_rename: pa[0] = r->rdi; pa[1] = r->rsi; np = 2; break;
	  case SYS_link: case SYS_symlink: pa[0] = r->rsi; break;
	  case SYS_renameat: case SYS_renameat2: dfd[0] = (int)r->rdi; pa[0] = r->rsi; dfd[1] = (int)r->rdx; pa[1] = r->r10; np = 2; break;
	  case SYS_linkat: dfd[0] = (int)r->rdx; pa[0] = r->r10; break;
	  case SYS_symlinkat: dfd[0] = (int)r->rsi; pa[0] = r->rdx; break;
	  case SYS_unlinkat: case SYS_mkdirat: case SYS_fchmodat: case SYS_fchownat: case SYS_mknodat: case SYS_utimensat:
	    dfd[0] = (int)r->rdi; pa[0] = r->rsi; break;
	  default: pa[0] = r->rdi; break;
	  }
	for (int k = 0; k < np; ++k)
	  {
	    char arg[4096], abs[4096];
	    if (!pa[k] || read_str(pid, pa[k], arg, sizeof arg)) continue;
	    resolve_path(dfd[k] == AT_FDCWD ? -1 : dfd[k], arg, abs, sizeof abs);
	    if (beyond_sandbox(abs)) { do_skip(pid, c, -EACCES); c->injected = 0; break; }
	  }
	break;
      }
    case SYS_getrandom:
      {
	/* the only source of randomness the programs can reach (malloc's tcache key, mkstemp names): the simulated
	   kernel answers it from a counter, so that a run is a function of its plan alone */
	unsigned char buf[256];
	long want = (long)r->rsi;
	if (want < 0) want = 0;
	if (want > (long)sizeof buf) want = (long)sizeof buf;
	for (long i = 0; i < want; ++i)
	  {
	    uint64_t z = (rnd_calls++ + 1) * 0x9E3779B97F4A7C15ULL;
	    z = (z ^ (z >> 30)) * 0xBF58476D1CE4E5B9ULL; z = (z ^ (z >> 27)) * 0x94D049BB133111EBULL; z ^= z >> 31;
	    buf[i] = (unsigned char)z;
	  }
	if (want && write_mem(pid, r->rdi, buf, (size_t)want)) break;
	do_skip(pid, c, want);
	c->injected = 0;
	--steps;   /* a query of the environment, not an I/O step */
	break;
      }
    case SYS_clock_gettime: case SYS_gettimeofday: case SYS_time:
      {
	/* the vDSO is hidden from the program (scrub_vdso), so every clock reading arrives here: simulated time
	   starts at SIM_EPOCH (0 for the monotonic clocks) and advances one millisecond per reading */
	uint64_t n = ++clk_calls;
	long sec = (long)(n / 1000), nsec = (long)(n % 1000) * 1000000L;
	long ret = 0;
	if (nr == SYS_clock_gettime)
	  {
	    int clk = (int)r->rdi;
	    struct timespec ts = { sec + ((clk == CLOCK_REALTIME || clk == CLOCK_REALTIME_COARSE || clk == CLOCK_TAI) ? SIM_EPOCH : 0), nsec };
	    if (r->rsi && write_mem(pid, r->rsi, &ts, sizeof ts)) break;
	  }
	else if (nr == SYS_gettimeofday)
	  {
	    struct timeval tv = { sec + SIM_EPOCH, nsec / 1000 };
	    if (r->rdi && write_mem(pid, r->rdi, &tv, sizeof tv)) break;
	    if (r->rsi) { struct timezone tz = { 0, 0 }; write_mem(pid, r->rsi, &tz, sizeof tz); }
	  }
	else
	  {
	    long t = sec + SIM_EPOCH;
	    if (r->rdi && write_mem(pid, r->rdi, &t, sizeof t)) break;
	    ret = t;
	  }
	do_skip(pid, c, ret);
	c->injected = 0;
	--steps;
	break;
      }
    case SYS_read: case SYS_pread64: case SYS_readv: case SYS_preadv:
      {
	int fd = (int)r->rdi; c->fd = fd;
	if (fd < 0 || fd >= MAXFD) break;
	struct fdent *e = &fds[fd];
	long want;
	if (nr == SYS_readv || nr == SYS_preadv)
	  { c->iov_addr = r->rsi; c->iov_cnt = (int)r->rdx > 16 ? 16 : (int)r->rdx; want = iov_total(pid, r->rsi, c->iov_cnt, c->iov_saved); }
	else want = (long)r->rdx;
	c->want = want;
	if (e->kind == K_NONE || e->kind == K_SYS) break;
	long pos = (nr == SYS_pread64) ? (long)r->r10 : e->off;
	for (int i = 0; i < P.nfaults && !c->skip; ++i)
	  {
	    struct fault *f = &P.faults[i];
	    if (!fault_matches(f, e)) continue;
	    if (f->op == F_RFAIL)
	      {
		if (f->done) continue;
		if (f->tripped || (pos == f->at && want > 0))
		  {
		    fire(f, pos);
		    f->tripped = 1;
		    if (f->once) f->done = 1;
		    do_skip(pid, c, -f->err);
		  }
		else if (pos < f->at && pos + want > f->at)
		  {
		    do_shorten(pid, c, nr, f->at - pos);
		    want = f->at - pos;
		    f->tripped = 1;
		  }
	      }
	    else if (f->op == F_RCHUNK && want > 1)
	      {
		f->lcg = f->lcg * 6364136223846793005ULL + 1442695040888963407ULL;
		long n = 1 + (long)((f->lcg >> 33) % (uint64_t)f->len);
		if (n < want) { do_shorten(pid, c, nr, n); want = n; fire(f, pos); }
	      }
	  }
	break;
      }
    case SYS_write: case SYS_pwrite64: case SYS_writev: case SYS_pwritev:
      {
	int fd = (int)r->rdi; c->fd = fd;
	if (fd < 0 || fd >= MAXFD) break;
	struct fdent *e = &fds[fd];
	long want;
	if (nr == SYS_writev || nr == SYS_pwritev)
	  { c->iov_addr = r->rsi; c->iov_cnt = (int)r->rdx > 16 ? 16 : (int)r->rdx; want = iov_total(pid, r->rsi, c->iov_cnt, c->iov_saved); }
	else want = (long)r->rdx;
	c->want = want;
	if (e->kind == K_NONE || e->kind == K_SYS) break;
	for (int i = 0; i < P.nfaults && !c->skip; ++i)
	  {
	    struct fault *f = &P.faults[i];
	    if (!fault_matches(f, e)) continue;
	    if (f->op == F_WFAIL)
	      {
		if (f->done) continue;
		if (f->tripped || (f->accepted >= f->at && want > 0))
		  {
		    fire(f, f->accepted);
		    f->tripped = 1;
		    if (f->once) f->done = 1;
		    do_skip(pid, c, -f->err);
		  }
		else
		  {
		    if (f->accepted + want > f->at)
		      {
			long n = f->at - f->accepted;
			do_shorten(pid, c, nr, n);
			want = n;
			f->tripped = 1;
		      }
		    if (c->nwf < MAXF) c->wf[c->nwf++] = f;
		  }
	      }
	    else if (f->op == F_WSHORT)
	      {
		f->count++;
		if (f->count == f->nth && f->len > 0 && f->len < want)
		  { do_shorten(pid, c, nr, f->len); want = f->len; fire(f, f->count); }
	      }
	  }
	break;
      }
    case SYS_close:
      {
	int fd = (int)r->rdi; c->fd = fd;
	if (fd < 0 || fd >= MAXFD) break;
	struct fdent *e = &fds[fd];
	if (e->kind == K_NONE || e->kind == K_SYS) break;
	for (int i = 0; i < P.nfaults; ++i)
	  {
	    struct fault *f = &P.faults[i];
	    if (f->op == F_CLOSEFAIL && fault_matches(f, e))
	      { c->override = 1; c->forced = -f->err; c->injected = 1; fire(f, 0); break; }
	  }
	break;
      }
    case SYS_ioctl:
      {
	int fd = (int)r->rdi; c->fd = fd;
	if (fd >= 0 && fd < MAXFD && fds[fd].kind == K_STDOUT && P.stdout_kind == 2)
	  {
	    unsigned long req = r->rsi;
	    if (req == TCGETS)
	      {
		struct termios t; memset(&t, 0, sizeof t);
		write_mem(pid, r->rdx, &t, 36 /* kernel struct termios */);
		do_skip(pid, c, 0); c->injected = 0;
	      }
	    else if (req == TIOCGWINSZ)
	      {
		do_skip(pid, c, -ENOTTY); c->injected = 0;
	      }
	  }
	break;
      }
    case SYS_lseek:
      {
	int fd = (int)r->rdi; c->fd = fd;
	if (fd >= 0 && fd < MAXFD &&
	    ((fds[fd].kind == K_STDOUT && P.stdout_kind != 0) || (fds[fd].kind == K_STDIN && P.stdin_pipe)))
	  { do_skip(pid, c, -ESPIPE); c->injected = 0; }
	break;
      }
    case SYS_mmap:
      {
	long len = (long)r->rsi; long flags = (long)r->r10;
	if ((flags & 0x20 /*MAP_ANONYMOUS*/) && !(flags & 0x4000 /*MAP_NORESERVE*/))
	  {
	    if (len > max_alloc) max_alloc = len;
	    if (P.alloc_mb > 0 && len > (P.alloc_mb << 20)) huge_alloc = 1;
	  }
	break;
      }
    case SYS_mremap:
      {
	long len = (long)r->rdx;
	if (len > max_alloc) max_alloc = len;
	if (P.alloc_mb > 0 && len > (P.alloc_mb << 20)) huge_alloc = 1;
	break;
      }
    default:
      break;
    }
}

static void path_call(pid_t pid, struct sysctx *c, const char *name, int dirfd, unsigned long paddr, long res)
{
  (void)c;
  char arg[4096], abs[4096];
  if (read_str(pid, paddr, arg, sizeof arg)) arg[0] = 0;
  resolve_path(dirfd == AT_FDCWD ? -1 : dirfd, arg, abs, sizeof abs);
  const char *rel;
  if (in_root(abs, &rel)) { add_mutation(name, rel, "", res); logev("%s %s -> %ld", name, rel, res); }
  else if (is_tmpf_path(abs)) { logev("%s <tmpfile> -> %ld", name, res); }
  else
    {
      char tmp[4200];
      const char *shown = display_outside(abs, tmp, sizeof tmp);
      add_mutation(name, shown, "outside", res); logev("%s %s -> %ld", name, shown, res);
    }
}

static void handle_exit(pid_t pid, struct sysctx *c)
{
  struct user_regs_struct r;
  ptrace(PTRACE_GETREGS, pid, 0, &r);
  long nr = (long)c->entry.orig_rax;
  long res = (long)r.rax;
  int dirty = 0;
  if (c->skip || c->override) { res = c->forced; r.rax = (unsigned long long)res; dirty = 1; }
  if (c->restore_args) { r.rdx = c->entry.rdx; dirty = 1; }
  if (c->restore_iov) write_mem(pid, c->iov_addr, c->iov_saved, sizeof(struct iovec) * (size_t)c->iov_cnt);
  const char *inj = c->injected ? " inj" : "";
  char tn[1100];

  switch (nr)
    {
    case SYS_open: case SYS_openat: case SYS_creat:
#ifdef SYS_openat2
    case SYS_openat2:
#endif
      {
	long fl = c->open_flags;
	char fs[64]; flags_str(fl, fs, sizeof fs);
	const char *rel;
	int tmpf = ((fl & O_TMPFILE) == O_TMPFILE) || is_tmpf_path(c->path);
	int wr = (fl & O_ACCMODE) != O_RDONLY || (fl & (O_CREAT | O_TRUNC));
	struct fdent e; memset(&e, 0, sizeof e); e.created_ord = -1;
	e.writable = (fl & O_ACCMODE) != O_RDONLY; e.readable = (fl & O_ACCMODE) != O_WRONLY;
	e.append = !!(fl & O_APPEND);
	if (tmpf)
	  {
	    e.kind = K_TMPFILE; snprintf(e.path, sizeof e.path, "<tmpfile>");
	    logev("open <tmpfile> %s -> %s%s", fs, res >= 0 ? "fd" : "err", inj);
	    if (res < 0) logev("  errno %ld", -res);
	  }
	else if (in_root(c->path, &rel))
	  {
	    char canon[4096];
	    const char *shown = rel;
	    if (res >= 0)
	      {
		/* the kernel's own resolution of what was opened */
		char lnk[64]; snprintf(lnk, sizeof lnk, "/proc/%d/fd/%ld", pid, res);
		ssize_t k = readlink(lnk, canon, sizeof canon - 1);
		if (k > 0)
		  {
		    canon[k] = 0;
		    const char *rel2;
		    if (in_root(canon, &rel2)) shown = rel2;
		    else { static char tmp2[4200]; shown = display_outside(canon, tmp2, sizeof tmp2); }
		  }
	      }
	    e.kind = K_SANDBOX; snprintf(e.path, sizeof e.path, "%s", shown);
	    if (wr) { e.created_ord = (res >= 0) ? next_created++ : -1; add_mutation("open", shown, fs, res); }
	    logev("open %s %s -> %s%s", shown, fs, res >= 0 ? "fd" : "err", inj);
	    if (res < 0) logev("  errno %ld", -res);
	  }
	else
	  {
	    e.kind = K_SYS; snprintf(e.path, sizeof e.path, "%s", c->path);
	    if (wr)
	      {
		char tmp[4200];
		const char *shown = display_outside(c->path, tmp, sizeof tmp);
		add_mutation("open", shown, fs, res); logev("open %s %s -> %ld outside", shown, fs, res >= 0 ? 0 : res);
	      }
	  }
	if (res >= 0 && res < MAXFD) fds[res] = e;
	break;
      }
    case SYS_read: case SYS_pread64: case SYS_readv: case SYS_preadv:
      {
	int fd = c->fd;
	if (fd < 0 || fd >= MAXFD || fds[fd].kind == K_NONE || fds[fd].kind == K_SYS) break;
	struct fdent *e = &fds[fd];
	long pos = (nr == SYS_pread64 || nr == SYS_preadv) ? (long)c->entry.r10 : e->off;
	target_name(e, tn, sizeof tn);
	logev("read %s @%ld want %ld -> %ld%s", tn, pos, c->want, res, inj);
	if (e->kind == K_SANDBOX || e->kind == K_STDIN || e->kind == K_TMPFILE)
	  record_read(e->kind == K_STDIN ? "stdin" : e->path, pos, res);
	if (res > 0 && nr != SYS_pread64 && nr != SYS_preadv) e->off += res;
	break;
      }
    case SYS_write: case SYS_pwrite64: case SYS_writev: case SYS_pwritev:
      {
	int fd = c->fd;
	if (fd < 0 || fd >= MAXFD || fds[fd].kind == K_NONE || fds[fd].kind == K_SYS) break;
	struct fdent *e = &fds[fd];
	target_name(e, tn, sizeof tn);
	logev("write %s want %ld -> %ld%s", tn, c->want, res, inj);
	struct acc *a = acc_get(tn);
	a->calls++;
	if (res > 0)
	  {
	    a->bytes += res;
	    e->off += res;
	    for (int i = 0; i < c->nwf; ++i) c->wf[i]->accepted += res;
	  }
	break;
      }
    case SYS_lseek:
      {
	int fd = c->fd;
	if (fd < 0 || fd >= MAXFD || fds[fd].kind == K_NONE || fds[fd].kind == K_SYS) break;
	struct fdent *e = &fds[fd];
	target_name(e, tn, sizeof tn);
	logev("lseek %s %ld whence %ld -> %ld", tn, (long)c->entry.rsi, (long)c->entry.rdx, res);
	if (res >= 0) e->off = res;
	break;
      }
    case SYS_close:
      {
	int fd = c->fd;
	if (fd < 0 || fd >= MAXFD || fds[fd].kind == K_NONE) break;
	struct fdent *e = &fds[fd];
	if (e->kind != K_SYS)
	  {
	    target_name(e, tn, sizeof tn);
	    logev("close %s -> %ld%s", tn, res, inj);
	  }
	e->kind = K_NONE;
	break;
      }
    case SYS_fstat: case SYS_newfstatat:
      {
	int fd = (int)c->entry.rdi;
	unsigned long sb = (nr == SYS_fstat) ? c->entry.rsi : c->entry.rdx;
	if (nr == SYS_newfstatat)
	  {
	    char arg[16];
	    if (read_mem(pid, c->entry.rsi, arg, 1) || arg[0] != 0 || !((long)c->entry.r10 & 0x1000 /*AT_EMPTY_PATH*/)) break;
	  }
	if (fd < 0 || fd >= MAXFD || res < 0) break;
	int want_mode = 0;
	if (fds[fd].kind == K_STDOUT && P.stdout_kind == 1) want_mode = S_IFIFO | 0600;
	if (fds[fd].kind == K_STDOUT && P.stdout_kind == 2) want_mode = S_IFCHR | 0620;
	if (fds[fd].kind == K_STDIN && P.stdin_pipe) want_mode = S_IFIFO | 0600;
	if (want_mode)
	  {
	    uint32_t m = (uint32_t)want_mode;
	    write_mem(pid, sb + offsetof(struct stat, st_mode), &m, sizeof m);
	    long z = 0;
	    write_mem(pid, sb + offsetof(struct stat, st_size), &z, sizeof z);
	  }
	break;
      }
    case SYS_dup: case SYS_dup2: case SYS_dup3:
      {
	int fd = (int)c->entry.rdi;
	if (res >= 0 && res < MAXFD && fd >= 0 && fd < MAXFD) fds[res] = fds[fd];
	break;
      }
    case SYS_fcntl:
      {
	int fd = (int)c->entry.rdi; long cmd = (long)c->entry.rsi;
	if ((cmd == F_DUPFD || cmd == F_DUPFD_CLOEXEC) && res >= 0 && res < MAXFD && fd >= 0 && fd < MAXFD) fds[res] = fds[fd];
	break;
      }
    case SYS_brk:
      {
	if (!brk_base) { brk_base = res; brk_cur = res; }
	else
	  {
	    if (res > brk_cur && res - brk_cur > max_alloc) max_alloc = res - brk_cur;
	    if (P.alloc_mb > 0 && res - brk_base > (P.alloc_mb << 20)) huge_alloc = 1;
	    brk_cur = res;
	  }
	break;
      }
    case SYS_unlink: path_call(pid, c, "unlink", AT_FDCWD, c->entry.rdi, res); break;
    case SYS_unlinkat: path_call(pid, c, "unlink", (int)c->entry.rdi, c->entry.rsi, res); break;
    case SYS_rmdir: path_call(pid, c, "rmdir", AT_FDCWD, c->entry.rdi, res); break;
    case SYS_mkdir: path_call(pid, c, "mkdir", AT_FDCWD, c->entry.rdi, res); break;
    case SYS_mkdirat: path_call(pid, c, "mkdir", (int)c->entry.rdi, c->entry.rsi, res); break;
    case SYS_rename: path_call(pid, c, "rename-from", AT_FDCWD, c->entry.rdi, res); path_call(pid, c, "rename-to", AT_FDCWD, c->entry.rsi, res); break;
    case SYS_renameat: case SYS_renameat2:
      path_call(pid, c, "rename-from", (int)c->entry.rdi, c->entry.rsi, res); path_call(pid, c, "rename-to", (int)c->entry.rdx, c->entry.r10, res); break;
    case SYS_link: path_call(pid, c, "link", AT_FDCWD, c->entry.rsi, res); break;
    case SYS_linkat: path_call(pid, c, "link", (int)c->entry.rdx, c->entry.r10, res); break;
    case SYS_symlink: path_call(pid, c, "symlink", AT_FDCWD, c->entry.rsi, res); break;
    case SYS_symlinkat: path_call(pid, c, "symlink", (int)c->entry.rsi, c->entry.rdx, res); break;
    case SYS_truncate: path_call(pid, c, "truncate", AT_FDCWD, c->entry.rdi, res); break;
    case SYS_chmod: path_call(pid, c, "chmod", AT_FDCWD, c->entry.rdi, res); break;
    case SYS_fchmodat: path_call(pid, c, "chmod", (int)c->entry.rdi, c->entry.rsi, res); break;
    case SYS_chown: case SYS_lchown: path_call(pid, c, "chown", AT_FDCWD, c->entry.rdi, res); break;
    case SYS_fchownat: path_call(pid, c, "chown", (int)c->entry.rdi, c->entry.rsi, res); break;
    case SYS_mknod: path_call(pid, c, "mknod", AT_FDCWD, c->entry.rdi, res); break;
    case SYS_mknodat: path_call(pid, c, "mknod", (int)c->entry.rdi, c->entry.rsi, res); break;
    case SYS_utimensat:
      if (c->entry.rsi) path_call(pid, c, "utimens", (int)c->entry.rdi, c->entry.rsi, res);
      break;
    case SYS_ftruncate: case SYS_fchmod: case SYS_fchown: case SYS_fallocate:
      {
	int fd = (int)c->entry.rdi;
	if (fd >= 0 && fd < MAXFD && fds[fd].kind != K_NONE)
	  {
	    target_name(&fds[fd], tn, sizeof tn);
	    const char *nm = nr == SYS_ftruncate ? "ftruncate" : nr == SYS_fchmod ? "fchmod" : nr == SYS_fchown ? "fchown" : "fallocate";
	    if (fds[fd].kind != K_TMPFILE) add_mutation(nm, fds[fd].kind == K_SANDBOX ? fds[fd].path : tn, "", res);
	    logev("%s %s -> %ld", nm, tn, res);
	  }
	break;
      }
    case SYS_fork: case SYS_vfork: case SYS_clone: case SYS_socket: case SYS_chdir: case SYS_fchdir:
    case SYS_sendfile: case SYS_copy_file_range:
#ifdef SYS_clone3
    case SYS_clone3:
#endif
      unexpected++;
      logev("unexpected syscall %ld -> %ld", nr, res);
      break;
    default:
      break;
    }
  if (dirty) ptrace(PTRACE_SETREGS, pid, 0, &r);
}

/* Hide the vDSO from the freshly exec'ed program: its auxiliary vector entry AT_SYSINFO_EHDR becomes AT_IGNORE, so
   the C library reads clocks with real system calls, which the filter traps and the simulated clock answers. */
static void scrub_vdso(pid_t pid)
{
  struct user_regs_struct r;
  if (ptrace(PTRACE_GETREGS, pid, 0, &r)) return;
  unsigned long p = r.rsp;
  uint64_t v;
  if (read_mem(pid, p, &v, 8) || v > 100000) return;
  p += 8 + 8 * v + 8;                       /* argc, argv[], NULL */
  for (int i = 0; i < 100000; ++i)          /* envp[], NULL */
    {
      if (read_mem(pid, p, &v, 8)) return;
      p += 8;
      if (!v) break;
    }
  for (int i = 0; i < 256; ++i)
    {
      uint64_t kv[2];
      if (read_mem(pid, p, kv, sizeof kv) || kv[0] == 0 /* AT_NULL */) return;
      if (kv[0] == 33 /* AT_SYSINFO_EHDR */)
	{
	  kv[0] = 1; /* AT_IGNORE */
	  write_mem(pid, p, kv, sizeof kv);
	}
      p += 16;
    }
}

/* ----------------------------------------------------------- run a plan */

static void run_plan(void)
{
  memset(fds, 0, sizeof fds);
  nrr = nmut = nacc = 0; next_created = 0;
  seq = steps = 0; log_hash = 14695981039346656037ULL; rnd_calls = 0; clk_calls = 0;
  max_alloc = 0; huge_alloc = 0; brk_base = brk_cur = 0; unexpected = 0;
  buf_reset(&logb);
  fds[0].kind = K_STDIN; fds[1].kind = K_STDOUT; fds[2].kind = K_STDERR;
  fds[0].created_ord = fds[1].created_ord = fds[2].created_ord = -1;

  struct timespec t0, t1;
  clock_gettime(CLOCK_MONOTONIC, &t0);

  pid_t pid = fork();
  if (pid < 0) die("fork: %s", strerror(errno));
  if (pid == 0) child_main();

  int status;
  const char *timeout = NULL;
  int exited = 0, exit_code = -1, term_sig = 0, setup_fail = 0;

  if (waitpid(pid, &status, 0) < 0 || !WIFSTOPPED(status))
    {
      setup_fail = 1;
      if (WIFEXITED(status)) exit_code = WEXITSTATUS(status);
      goto done;
    }
  if (ptrace(PTRACE_SETOPTIONS, pid, 0,
	     PTRACE_O_TRACESECCOMP | PTRACE_O_EXITKILL | PTRACE_O_TRACESYSGOOD | PTRACE_O_TRACEEXEC))
    {
      kill(pid, SIGKILL); waitpid(pid, &status, 0);
      setup_fail = 2; goto done;
    }

  alarm_fired = 0;
  struct itimerval it; memset(&it, 0, sizeof it);
  it.it_value.tv_sec = P.wall_ms / 1000; it.it_value.tv_usec = (P.wall_ms % 1000) * 1000;
  setitimer(ITIMER_REAL, &it, NULL);

  struct sysctx ctx; memset(&ctx, 0, sizeof ctx);
  int in_syscall = 0;
  int execd = 0;
  long cont_req = PTRACE_CONT; int cont_sig = 0;
  for (;;)
    {
      ptrace(cont_req, pid, 0, cont_sig);
      cont_req = PTRACE_CONT; cont_sig = 0;
      pid_t w = waitpid(pid, &status, 0);
      if (w < 0)
	{
	  if (errno == EINTR && alarm_fired)
	    {
	      timeout = "wall";
	      kill(pid, SIGKILL);
	      while (waitpid(pid, &status, 0) < 0 && errno == EINTR) { }
	      break;
	    }
	  if (errno == EINTR) continue;
	  die("waitpid: %s", strerror(errno));
	}
      if (WIFEXITED(status)) { exited = 1; exit_code = WEXITSTATUS(status); break; }
      if (WIFSIGNALED(status)) { term_sig = WTERMSIG(status); break; }
      if (!WIFSTOPPED(status)) continue;
      int sig = WSTOPSIG(status);
      int event = status >> 16;
      if (sig == SIGTRAP && event == PTRACE_EVENT_SECCOMP)
	{
	  ++steps;
	  ptrace(PTRACE_GETREGS, pid, 0, &ctx.entry);
	  handle_entry(pid, &ctx);
	  in_syscall = 1;
	  cont_req = PTRACE_SYSCALL;
	  if (steps > P.steps)
	    {
	      timeout = "steps";
	      kill(pid, SIGKILL);
	      while (waitpid(pid, &status, 0) < 0 && errno == EINTR) { }
	      break;
	    }
	  if (huge_alloc)
	    {
	      /* Stop here: the request itself is the violation, and letting it
		 proceed could exhaust the sandbox. */
	      kill(pid, SIGKILL);
	      while (waitpid(pid, &status, 0) < 0 && errno == EINTR) { }
	      break;
	    }
	}
      else if (sig == (SIGTRAP | 0x80))
	{
	  if (in_syscall) { handle_exit(pid, &ctx); in_syscall = 0; }
	  /* else: a syscall-entry stop we did not ask for; ignore */
	}
      else if (sig == SIGTRAP && event == PTRACE_EVENT_EXEC) { execd = 1; scrub_vdso(pid); }
      else if (sig == SIGTRAP && event) { }
      else if (sig == SIGSTOP && !execd) { /* initial stop */ }
      else
	{
	  cont_sig = sig;   /* deliver the signal */
	}
    }
  memset(&it, 0, sizeof it);
  setitimer(ITIMER_REAL, &it, NULL);

done:
  clock_gettime(CLOCK_MONOTONIC, &t1);
  double wall = (double)(t1.tv_sec - t0.tv_sec) * 1e3 + (double)(t1.tv_nsec - t0.tv_nsec) / 1e6;

  buf_reset(&out);
  buf_printf(&out, "{");
  if (setup_fail) buf_printf(&out, "\"exit\":{\"setup_fail\":%d,\"code\":%d}", setup_fail, exit_code);
  else if (huge_alloc) buf_printf(&out, "\"exit\":{\"huge_alloc\":%ld}", max_alloc);
  else if (timeout) buf_printf(&out, "\"exit\":{\"timeout\":\"%s\"}", timeout);
  else if (exited) buf_printf(&out, "\"exit\":{\"code\":%d}", exit_code);
  else buf_printf(&out, "\"exit\":{\"signal\":%d}", term_sig);
  buf_printf(&out, ",\"steps\":%ld,\"events\":%ld,\"log_hash\":\"%016llx\"", steps, seq, (unsigned long long)log_hash);
  buf_printf(&out, ",\"max_alloc\":%ld,\"unexpected\":%ld,\"wall_ms\":%.3f", max_alloc, unexpected, wall);
  buf_printf(&out, ",\"clock_reads\":%llu,\"random_bytes\":%llu", (unsigned long long)clk_calls, (unsigned long long)rnd_calls);
  buf_printf(&out, ",\"accepted\":{");
  for (int i = 0; i < nacc; ++i)
    {
      if (i) buf_add(&out, ",", 1);
      buf_json_str(&out, accs[i].name);
      buf_printf(&out, ":[%ld,%ld]", accs[i].bytes, accs[i].calls);
    }
  buf_printf(&out, "},\"fired\":[");
  for (int i = 0; i < P.nfaults; ++i)
    {
      if (i) buf_add(&out, ",", 1);
      buf_printf(&out, "{\"fault\":%d,\"times\":%ld,\"first_at\":%ld}", i, P.faults[i].fired, P.faults[i].first_at);
    }
  buf_printf(&out, "],\"mutations\":[");
  for (int i = 0; i < nmut; ++i)
    {
      if (i) buf_add(&out, ",", 1);
      buf_printf(&out, "{\"op\":\"%s\",\"path\":", muts[i].op);
      buf_json_str(&out, muts[i].path);
      buf_printf(&out, ",\"flags\":\"%s\",\"res\":%ld}", muts[i].flags, muts[i].res);
    }
  buf_printf(&out, "],\"reads\":{");
  for (int i = 0; i < nrr; ++i)
    {
      if (i) buf_add(&out, ",", 1);
      buf_json_str(&out, rr[i].path);
      buf_printf(&out, ":{\"calls\":%ld,\"bytes\":%ld,\"ranges\":[", rr[i].calls, rr[i].bytes);
      /* sort ranges for determinism */
      for (int a = 0; a < rr[i].nr; ++a)
	for (int b = a + 1; b < rr[i].nr; ++b)
	  if (rr[i].r[b].a < rr[i].r[a].a) { struct range t = rr[i].r[a]; rr[i].r[a] = rr[i].r[b]; rr[i].r[b] = t; }
      for (int a = 0; a < rr[i].nr; ++a)
	buf_printf(&out, "%s[%ld,%ld]", a ? "," : "", rr[i].r[a].a, rr[i].r[a].b);
      buf_printf(&out, "]}");
    }
  buf_printf(&out, "}");
  if (P.want_log)
    {
      buf_printf(&out, ",\"log\":");
      buf_json_str(&out, logb.p ? logb.p : "");
    }
  buf_printf(&out, "}\n");
  fwrite(out.p, 1, out.len, stdout);
  fflush(stdout);
}

static int selftest(void)
{
  /* Can we trace at all?  fork a child that does TRACEME + seccomp. */
  pid_t pid = fork();
  if (pid < 0) return 1;
  if (pid == 0)
    {
      if (ptrace(PTRACE_TRACEME, 0, 0, 0)) _exit(1);
      raise(SIGSTOP);
      install_filter();
      syscall(SYS_close, 999);
      _exit(0);
    }
  int status;
  if (waitpid(pid, &status, 0) < 0 || !WIFSTOPPED(status)) return 1;
  if (ptrace(PTRACE_SETOPTIONS, pid, 0, PTRACE_O_TRACESECCOMP | PTRACE_O_EXITKILL)) { kill(pid, SIGKILL); return 1; }
  int saw = 0;
  for (;;)
    {
      ptrace(PTRACE_CONT, pid, 0, 0);
      if (waitpid(pid, &status, 0) < 0) return 1;
      if (WIFEXITED(status)) return (saw && WEXITSTATUS(status) == 0) ? 0 : 1;
      if (WIFSIGNALED(status)) return 1;
      if (WIFSTOPPED(status) && (status >> 16) == PTRACE_EVENT_SECCOMP) saw = 1;
    }
}

int main(int argc, char **argv)
{
  if (argc > 1 && !strcmp(argv[1], "--selftest"))
    {
      int r = selftest();
      printf(r ? "simkernel: tracing unavailable\n" : "simkernel: ok\n");
      return r ? 2 : 0;
    }
  struct sigaction sa; memset(&sa, 0, sizeof sa);
  sa.sa_handler = on_alarm;   /* no SA_RESTART: waitpid must be interrupted */
  sigaction(SIGALRM, &sa, NULL);
  signal(SIGPIPE, SIG_IGN);
  setvbuf(stdout, NULL, _IOFBF, 1 << 16);
  while (plan_read(&P, stdin))
    {
      run_plan();
      plan_free(&P);
    }
  return 0;
}
