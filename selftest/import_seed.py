#!/usr/bin/env python3
"""import_seed.py <property> <seed dir> <id> <needs...>: copy a verified seeded change into /verif/seeded/<id>/."""
import json
import os
import shutil
import sys

prop, src, sid = sys.argv[1], sys.argv[2], sys.argv[3]
needs = ' '.join(sys.argv[4:])
dst = os.path.join('/verif/seeded', sid)
os.makedirs(dst, exist_ok=True)
for f in os.listdir(src):
    p = os.path.join(src, f)
    if os.path.isfile(p) and os.path.getsize(p) < 2_000_000:
        shutil.copy(p, os.path.join(dst, f))
meta = {'property': prop, 'checks': [prop], 'origin': 'independent sub-agent given only the property text and a scratch worktree',
        'needs_to_manifest': needs,
        'confirmed_by_me': 'selftest/verify_seed.sh in a scratch worktree of /repo HEAD: patch applies, builds, 39/39 pinned tests pass with it, demo.sh passes without the change and fails with it',
        'detected_by': None}
json.dump(meta, open(os.path.join(dst, 'meta.json'), 'w'), indent=1)
print(dst)
