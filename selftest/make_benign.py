#!/usr/bin/env python3
"""Property-preserving edits (different buffer sizes, reworded diagnostics, reordered independent statements):
no check may raise an alarm on them.  Regenerates selftest/benign/*.diff against /repo HEAD."""
import os
import subprocess
import sys

REPO = '/repo'
OUT = os.path.join(os.path.dirname(os.path.abspath(__file__)), 'benign')

B = [
 ('gz-buffer-sizes', [('dfs/img_gzfile.cc', 'const int input_buf_size = 512;', 'const int input_buf_size = 300;'),
                      ('dfs/img_gzfile.cc', 'const int output_buf_size = 1024;', 'const int output_buf_size = 4096;')]),
 ('reworded-diagnostics', [('dfs/commands.cc', '": not found\\n"', '": no such file in the catalogue\\n"'),
                           ('basic/lines.c', '"premature end-of-file at position %ld, "', '"the file ends too early (position %ld), "'),
                           ('dfs/main.cc', '"error: failed to write to standard output"', '"error: standard output could not be written"'),
                           ('dfs/storage.cc', '"there is no disc in drive "', '"no disc is present in drive "', 2)]),
 ('sector-cache-size', [('dfs/storage.cc', 'const sector_count_type cached_sectors = 4;', 'const sector_count_type cached_sectors = 16;')]),
 ('basic-line-buffer-bigger', [('basic/lines.c', '  enum { BufSize = 1024 };', '  enum { BufSize = 2048 };'),
                               ('basic/lines.c', '  static char buf[1024];', '  static char buf[4096];')]),
 ('gz-stdio-buffer-size', [('dfs/img_gzfile.cc', 'std::vector<char> readbuf(32768, \'\\0\');', 'std::vector<char> readbuf(4096, \'\\0\');')]),
 ('verbose-wording', [('dfs/cmd_cat.cc', '"Screen width is "', '"Terminal width: "'),
                      ('dfs/identify.cc', '"File system format appears to be "', '"Detected file system format: "')]),
 ('decoder-window-sizes', [('dfs/track_fm.cc', 'max_id_to_data_mark_bits = 64 * bits_per_fm_byte', 'max_id_to_data_mark_bits = 48 * bits_per_fm_byte'),
                           ('dfs/track_mfm.cc', 'max_header_to_record_bits = 96 * bits_per_mfm_byte', 'max_header_to_record_bits = 70 * bits_per_mfm_byte')]),
]


def main():
    os.makedirs(OUT, exist_ok=True)
    for name, edits in B:
        okay = True
        for e in edits:
            path, old, new = e[0], e[1], e[2]
            cnt = e[3] if len(e) > 3 else 1
            p = os.path.join(REPO, path)
            s = open(p).read()
            if s.count(old) != cnt:
                print('SKIP %s: %r occurs %d times in %s' % (name, old, s.count(old), path))
                okay = False
                break
            open(p, 'w').write(s.replace(old, new))
        if okay:
            d = subprocess.run(['git', '-C', REPO, 'diff'], stdout=subprocess.PIPE).stdout
            open(os.path.join(OUT, name + '.diff'), 'wb').write(d)
        subprocess.run(['git', '-C', REPO, 'checkout', '--', '.'])
    print(sorted(os.listdir(OUT)))


if __name__ == '__main__':
    main()
