#!/bin/sh
# For every planted-bug patch: does it compile and does the repo's own pinned test suite still pass?
# Works in a scratch worktree outside /repo and /verif, removed afterwards.
set -u
WT=${1:-/tmp/verif-mutwt}
OUT=${2:-/verif/selftest/mutants_validated.txt}
git -C /repo worktree remove --force "$WT" 2>/dev/null
rm -rf "$WT"
git -C /repo worktree add --detach "$WT" HEAD >/dev/null 2>&1 || exit 2
cmake -G Ninja -S "$WT" -B "$WT/_b" -DCMAKE_BUILD_TYPE=RelWithDebInfo >/dev/null 2>&1
cmake --build "$WT/_b" >/dev/null 2>&1
: > "$OUT"
for d in /verif/selftest/mutants/*.diff /verif/seeded/*/patch.diff; do
  [ -f "$d" ] || continue
  name=$(echo "$d" | sed 's|/verif/||')
  if ! git -C "$WT" apply "$d" 2>/dev/null; then echo "$name NOAPPLY" >> "$OUT"; continue; fi
  if cmake --build "$WT/_b" >/dev/null 2>&1; then
    if ctest --test-dir "$WT/_b" -j16 --timeout 900 >"$WT/ctest.log" 2>&1; then res="compiles tests-pass"; else res="compiles TESTS-FAIL: $(grep -E '^\s*[0-9]+ - ' "$WT/ctest.log" | head -3 | tr '\n' ';')"; fi
  else
    res="DOES-NOT-COMPILE"
  fi
  echo "$name $res" >> "$OUT"
  git -C "$WT" checkout -- . 
done
git -C /repo worktree remove --force "$WT"
rm -rf "$WT"
echo done >> "$OUT"
