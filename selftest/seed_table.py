#!/usr/bin/env python3
"""Regenerates the table of DESIGN.md section 9.5 from seeded/*/meta.json (in place)."""
import json
import os

V = os.path.dirname(os.path.dirname(os.path.abspath(__file__)))
rows = []
for sid in sorted(os.listdir(os.path.join(V, 'seeded'))):
    mp = os.path.join(V, 'seeded', sid, 'meta.json')
    if not os.path.exists(mp):
        continue
    m = json.load(open(mp))
    esc = lambda t: str(t).replace('|', '\\|').replace('\n', ' ')
    rows.append('| %s | %s | %s | %s; %s |' % (sid, m.get('round', 1), esc(m.get('needs_to_manifest', '')), esc(m.get('detected_by', '')), esc(m.get('history', ''))))
p = os.path.join(V, 'DESIGN.md')
lines = open(p).read().split('\n')
a = lines.index('| seeded change | round | needs to manifest | result |')
b = a + 2
while b < len(lines) and lines[b].startswith('|'):
    b += 1
lines[a + 2:b] = rows
open(p, 'w').write('\n'.join(lines))
print(len(rows), 'rows')
