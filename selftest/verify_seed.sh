#!/bin/sh
# verify_seed.sh <src dir with patch.diff demo.sh> <scratch worktree path>
# Confirms: patch applies to a clean checkout of /repo HEAD, compiles, the 39 pinned tests pass with it,
# the demonstration passes without the change and fails with it.  Removes the scratch worktree afterwards.
SRC=$1; WT=$2
git -C /repo worktree remove --force "$WT" 2>/dev/null; rm -rf "$WT"
git -C /repo worktree add --detach "$WT" HEAD >/dev/null 2>&1 || { echo "worktree failed"; exit 2; }
res=""
cmake -G Ninja -S "$WT" -B "$WT/_build" -DCMAKE_BUILD_TYPE=RelWithDebInfo >/dev/null 2>&1 && cmake --build "$WT/_build" >/dev/null 2>&1 || res="$res clean-build-failed"
( cd "$WT" && timeout 900 $(head -1 "$SRC/demo.sh" | grep -q bash && echo bash || echo sh) "$SRC/demo.sh" "$WT/_build" >"$WT/demo_clean.log" 2>&1 ); d0=$?
git -C "$WT" apply "$SRC/patch.diff" 2>/dev/null || res="$res patch-does-not-apply"
cmake --build "$WT/_build" >"$WT/build.log" 2>&1 || res="$res patched-build-failed"
ctest --test-dir "$WT/_build" -j16 --timeout 900 >"$WT/ctest.log" 2>&1; t=$?
( cd "$WT" && timeout 900 $(head -1 "$SRC/demo.sh" | grep -q bash && echo bash || echo sh) "$SRC/demo.sh" "$WT/_build" >"$WT/demo_patched.log" 2>&1 ); d1=$?
echo "demo_clean=$d0 ctest_patched=$t demo_patched=$d1$res files=$(git -C "$WT" diff --stat | tail -1)"
tail -3 "$WT/demo_patched.log" | cut -c1-200
git -C /repo worktree remove --force "$WT"; rm -rf "$WT"
