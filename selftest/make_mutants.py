#!/usr/bin/env python3
"""Regenerates selftest/mutants/*.diff from the edit list below (against /repo HEAD)."""
import os
import subprocess
import sys

REPO = '/repo'
OUT = os.path.join(os.path.dirname(os.path.abspath(__file__)), 'mutants')

M = [
 ('C11-dfs-no-final-flush-check', 'dfs/main.cc', "if (0 != fflush(stdout) || ferror(stdout) || !std::cout.good())", "if (false)"),
 ('C11-extract-unused-ignores-close', 'dfs/cmd_extract_unused.cc', "    output.close();\n    if (!output)", "    output.close();\n    if (false)"),
 ('C11-basic-no-final-flush-check', 'basic/bbcbasic_to_text.c', "if (0 != fflush(stdout) || ferror(stdout))", "if (0)"),
 ('C11-extract-files-ignores-close', 'dfs/cmd_extract_files.cc', "	if (!outfile)\n	  {\n	    // Data still buffered", "	if (false)\n	  {\n	    // Data still buffered"),
 ('C09-le-short-read-falls-through', 'basic/lines.c', "	  else\n	    {\n	      return premature_eof(f);\n	    }\n	}\n      if ((len > 0) && buf[len-1] != 0x0D)", "	}\n      if ((len > 0) && buf[len-1] != 0x0D)"),
 ('C09-be-short-read-falls-through', 'basic/lines.c', "	  else\n	    {\n	      return premature_eof(f);\n	    }\n	}\n      if (!decode_line(hi, lo, len, buf, file_pos, m, &indent, listo))", "	}\n      if (!decode_line(hi, lo, len, buf, file_pos, m, &indent, listo))"),
 ('C09-indent-persists-across-files', 'basic/lines.c', "  bool warned = false;\n  bool empty = true;\n  int indent = 0;", "  bool warned = false;\n  bool empty = true;\n  static int indent = 0;"),
 ('C09-eof-marker-second-byte-not-required', 'basic/lines.c', "	  if (!expect_char(f, 0xFF) || !expect_char(f, 0xFF))\n	    return false;", "	  if (!expect_char(f, 0xFF))\n	    return false;\n	  (void)getc(f);"),
 ('C06-fm-skips-data-crc', 'dfs/track_fm.cc', "if (data_crc != 0 && !discard_record)", "if (false && data_crc != 0 && !discard_record)"),
 ('C06-mfm-skips-header-crc', 'dfs/track_mfm.cc', "		if (check_crc_with_a1s(header, error))\n		  {\n		    if (decode_sector_address_and_size", "		if (true)\n		  {\n		    if (decode_sector_address_and_size"),
 ('C06-fm-no-window', 'dfs/track_fm.cc', "if (id_intervenes || thisbit - id_end > max_id_to_data_mark_bits)", "if (id_intervenes)"),
 ('C06-fm-id-between-ignored', 'dfs/track_fm.cc', "if (id_intervenes || thisbit - id_end > max_id_to_data_mark_bits)", "if (thisbit - id_end > max_id_to_data_mark_bits)"),
 ('C06-hxc-ordinal-index', 'dfs/img_hxcmfm.cc', "	  if (sect.address == want)", "	  if (&sect == &sectors_[lba < sectors_.size() ? lba : 0])"),
 ('C10-ignores-data-error', 'dfs/img_gzfile.cc', "      case Z_DATA_ERROR:\n	throw FixedDecompressionError(\"input data was corrupted, \"\n				      \"are you sure it was created with gzip?\");", "      case Z_DATA_ERROR:\n	return;"),
 ('C10-truncated-stream-accepted', 'dfs/img_gzfile.cc', "	    if (zerr == Z_BUF_ERROR && got)\n	      {", "	    if (zerr == Z_BUF_ERROR && !got)\n	      return;\n	    if (zerr == Z_BUF_ERROR && got)\n	      {"),
 ('C10-first-member-only', 'dfs/img_gzfile.cc', "	while (zerr == Z_STREAM_END\n	       ? (stream.avail_in > 0) // another member follows\n	       : (stream.avail_out == 0));", "	while (zerr != Z_STREAM_END && stream.avail_out == 0);\n	if (zerr == Z_STREAM_END) break;"),
 ('C16-two-sided-next-not-plus-2', 'dfs/storage.cc', "n = n.next().next();", "n = n.next();"),
 ('C16-first-fit-reuses-slot', 'dfs/storage.cc', "		if (!is_drive_connected(n))\n		  {\n		    connect_internal(n, d);\n		    break;", "		if (!is_drive_connected(n) || n == drive_number(1))\n		  {\n		    drives_.erase(n); caches_.erase(n); connect_internal(n, d);\n		    break;"),
 ('C16-physical-ignores-opposite', 'dfs/storage.cc', "    if (occupied(i.opposite_surface()))\n      return false;", "    if (false)\n      return false;"),
 ('C12-image-opened-read-write', 'dfs/img_fileio.cc', "f_(name, std::ifstream::binary)", "f_(name, std::ifstream::binary | std::ifstream::out)"),
 ('C12-inf-written-to-cwd', 'dfs/cmd_extract_files.cc', "const string inf_file_name = output_body_file + \".inf\";", "const string inf_file_name = host_file_name(output_basename) + \".inf\";"),
 ('C12-no-escape-of-slash', 'dfs/cmd_extract_files.cc', "	if (ch == '/')\n	  result.append(\"%2F\");", "	if (false)\n	  result.append(\"%2F\");"),
 ('C07-hfe-short-header-unchecked', 'dfs/img_hfe.cc', "      if (header_data.size() < 512)\n	{", "      if (false)\n	{"),
 ('C07-throws-pointer', 'dfs/img_gzfile.cc', "throw NonFileOsError(errno);", "throw new NonFileOsError(errno);"),
 ('C07-silent-show-titles', 'dfs/cmd_show_titles.cc', "	    if (!error.empty())\n	      DFS::failed_to_mount_surface(std::cerr, surface, error);", "	    ;"),
 ('C08-default-dialect-in-assert', 'basic/bbcbasic_to_text.c', "  if (!set_dialect(default_dialect_name, &dialect))\n    {\n      fprintf(stderr, \"The default BASIC dialect '%s' is unknown.  This is a bug.\\n\",\n	      default_dialect_name);\n      return 1;\n    }", "  assert(set_dialect(default_dialect_name, &dialect));"),
 ('C08-line-buffer-too-small', 'basic/lines.c', "  enum { BufSize = 1024 };\n  static char buf[BufSize];", "  enum { BufSize = 1024 };\n  static char buf[200];"),
 ('C08-operand-length-unchecked', 'basic/lines.c', "	  if (*len < 3)\n	    {\n	      fprintf(stderr, \"end-of-line in the middle of a line number\\n\");\n	      return false;\n	    }\n	  else", "	  if (false)\n	    {\n	      return false;\n	    }\n	  else"),
 ('C04+C17-fileview-bound-off-by-one', 'dfs/img_fileio.cc', "      if (sector >= total_)", "      if (sector > total_)"),
 ('C17-volume-bound-off-by-one', 'dfs/dfs_volume.h', "	 if (lba >= len_)", "	 if (lba > len_)"),
 ('C04-mmb-slot-offset-off-by-one', 'dfs/img_mmb.cc', "auto initial_skip_sectors = mmb_sectors + (slot * disc_image_sectors);", "auto initial_skip_sectors = mmb_sectors + ((slot > 3 ? slot + 1 : slot) * disc_image_sectors);"),
 ('C04-interleave-side1-offset', 'dfs/img_sdf.cc', "		     track_len, /* side 1 begins after the first track of side 0 */", "		     track_len + 1, /* side 1 begins after the first track of side 0 */"),
 ('C04-second-side-not-attached', 'dfs/identify.cc', "	if (both_sides != possible.cend())\n	  it = both_sides;", "	if (false)\n	  it = both_sides;"),
 ('C05-hfe-side1-reads-side0-blocks', 'dfs/img_hfe.cc', "      auto begin_offset = side_block_size * side;", "      auto begin_offset = side_block_size * (side ? 0u : 0u);"),
 ('C05-skipbits-operand-as-data', 'dfs/img_hfe.cc', "		// The operand is not itself track data; the bits to be\n		// skipped are the leading bits of the byte after it.\n		continue;", "		break;"),
 ('C05-hfe-head-from-lba', 'dfs/img_hfe.cc', "      addr.head = static_cast<unsigned char>(side_);", "      addr.head = static_cast<unsigned char>(lba / (geom_.cylinders * geom_.sectors));"),
 ('C18-verbose-writes-stdout', 'dfs/cmd_cat.cc', "	  std::cerr << \"Screen width is \";", "	  std::cout << \"Screen width is \";"),
 ('C18-show-config-changes-status', 'dfs/main.cc', "	  storage.show_drive_configuration(std::cerr);\n	}", "	  storage.show_drive_configuration(std::cerr);\n	  if (storage.get_all_occupied_drive_numbers().size() > 2) return 1;\n	}"),
 ('C18-ui-watford-drops-locked-flag', 'dfs/cmd_cat.cc', "	  if (entry.is_locked())\n	    {", "	  if (entry.is_locked() && !(ui == DFS::UiStyle::Watford && screen_width.value_or(40) < 40))\n	    {"),
 ('C19-default-dialect-in-assert', 'basic/bbcbasic_to_text.c', "  if (!set_dialect(default_dialect_name, &dialect))\n    {\n      fprintf(stderr, \"The default BASIC dialect '%s' is unknown.  This is a bug.\\n\",\n	      default_dialect_name);\n      return 1;\n    }", "  assert(set_dialect(default_dialect_name, &dialect));"),
 ('C19-default-listo-in-assert', 'basic/bbcbasic_to_text.c', "  int listo = 7;", "  int listo;\n  assert((listo = 7) == 7);"),
 ('C19-gz-extension-popped-inside-assert-reversed', 'dfs/img_load.cc', "	compressed = true;\n	extensions.pop_back();", "	compressed = true;\n	extensions.pop_back();\n	assert(extensions.size() < 2 || (extensions.pop_back(), true));"),
 ('C01-start-sector-high-bits-shift', 'dfs/dfs_catalog.h', "					  | ((metadata_byte(6) & 3) << 8));", "					  | ((metadata_byte(6) & 3) << 7));"),
 ('C01-watford-low-byte-only', 'dfs/identify.cc', "	const unsigned int start_sector =\n	  buf1[pos + 7] | ((buf1[pos + 6] & 3u) << 8);", "	const unsigned int start_sector = buf1[pos + 7];"),
 ('C01-opus-single-volume-default', 'dfs/dfs_filesystem.cc', "  if (disc_format() == Format::OpusDDOS && !key)", "  if (volumes_.size() > 1 && !key)"),
 ('C01-length-high-bits-dropped-above-128k', 'dfs/dfs_catalog.h', "    return metadata_word(4) | ((metadata_byte(6) >> 4) & 3uL) << 16;", "    return metadata_word(4) | ((metadata_byte(6) >> 4) & 1uL) << 16;"),
 ('C01-list-drops-final-unterminated-line-char', 'dfs/cmd_list.cc', "	  for (const byte *p = body_start; p < body_end; ++p)", "	  for (const byte *p = body_start; p < body_end - ((body_end - body_start) > 70000 ? 1 : 0); ++p)"),
]


def main():
    os.makedirs(OUT, exist_ok=True)
    if subprocess.run(['git', '-C', REPO, 'status', '--porcelain', '--untracked-files=no'], stdout=subprocess.PIPE).stdout.strip():
        sys.exit('repo dirty')
    for name, path, old, new in M:
        p = os.path.join(REPO, path)
        s = open(p).read()
        if s.count(old) != 1:
            print('SKIP %s: pattern occurs %d times in %s' % (name, s.count(old), path))
            continue
        open(p, 'w').write(s.replace(old, new))
        d = subprocess.run(['git', '-C', REPO, 'diff'], stdout=subprocess.PIPE).stdout
        open(os.path.join(OUT, name + '.diff'), 'wb').write(d)
        subprocess.run(['git', '-C', REPO, 'checkout', '--', '.'])
    print(len(os.listdir(OUT)), 'mutants')


if __name__ == '__main__':
    main()
